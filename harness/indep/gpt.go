// Package indep holds readers written for the harness only: they share no code
// with the library and are the oracles for on-disk validity.
package indep

import (
	"encoding/binary"
	"fmt"
	"hash/crc32"
	"unicode/utf16"
)

// ReaderAt is the minimal device view the independent parsers need.
type ReaderAt interface {
	ReadAt(p []byte, off int64) (int, error)
}

type GPTEntry struct {
	Index    int // 1-based slot
	TypeGUID string
	GUID     string
	First    uint64
	Last     uint64
	Attrs    uint64
	Name     string
	NameU16  []uint16
}

type GPTHeader struct {
	LBA          uint64 // where it was read from
	Revision     uint32
	HeaderSize   uint32
	HeaderCRC    uint32
	HeaderCRCOK  bool
	Reserved     uint32
	MyLBA        uint64
	AltLBA       uint64
	FirstUsable  uint64
	LastUsable   uint64
	DiskGUID     string
	ArrayLBA     uint64
	NumEntries   uint32
	EntrySize    uint32
	ArrayCRC     uint32
	ArrayCRCOK   bool
	SignatureOK  bool
	TailZero     bool // bytes after the header up to the sector end are zero
	Entries      []GPTEntry
	ArrayInRange bool
}

// GUIDString decodes the mixed-endian on-disk GUID form, upper case.
func GUIDString(b []byte) string {
	return fmt.Sprintf("%02X%02X%02X%02X-%02X%02X-%02X%02X-%02X%02X-%02X%02X%02X%02X%02X%02X",
		b[3], b[2], b[1], b[0], b[5], b[4], b[7], b[6], b[8], b[9], b[10], b[11], b[12], b[13], b[14], b[15])
}

func readFull(r ReaderAt, off int64, n int) ([]byte, error) {
	b := make([]byte, n)
	got, err := r.ReadAt(b, off)
	if got != n {
		return nil, fmt.Errorf("short read at %d: %d of %d (%v)", off, got, n, err)
	}
	return b, nil
}

// ParseGPTHeader reads and validates the header at the given LBA and, if its
// geometry is sane, the entry array it points to.
func ParseGPTHeader(r ReaderAt, lss int, lba uint64, diskSize int64) (*GPTHeader, error) {
	sec, err := readFull(r, int64(lba)*int64(lss), lss)
	if err != nil {
		return nil, err
	}
	h := &GPTHeader{LBA: lba}
	h.SignatureOK = string(sec[0:8]) == "EFI PART"
	h.Revision = binary.LittleEndian.Uint32(sec[8:12])
	h.HeaderSize = binary.LittleEndian.Uint32(sec[12:16])
	h.HeaderCRC = binary.LittleEndian.Uint32(sec[16:20])
	h.Reserved = binary.LittleEndian.Uint32(sec[20:24])
	h.MyLBA = binary.LittleEndian.Uint64(sec[24:32])
	h.AltLBA = binary.LittleEndian.Uint64(sec[32:40])
	h.FirstUsable = binary.LittleEndian.Uint64(sec[40:48])
	h.LastUsable = binary.LittleEndian.Uint64(sec[48:56])
	h.DiskGUID = GUIDString(sec[56:72])
	h.ArrayLBA = binary.LittleEndian.Uint64(sec[72:80])
	h.NumEntries = binary.LittleEndian.Uint32(sec[80:84])
	h.EntrySize = binary.LittleEndian.Uint32(sec[84:88])
	h.ArrayCRC = binary.LittleEndian.Uint32(sec[88:92])
	if !h.SignatureOK {
		return h, nil
	}
	if h.HeaderSize >= 92 && int(h.HeaderSize) <= lss {
		tmp := append([]byte(nil), sec[:h.HeaderSize]...)
		tmp[16], tmp[17], tmp[18], tmp[19] = 0, 0, 0, 0
		h.HeaderCRCOK = crc32.ChecksumIEEE(tmp) == h.HeaderCRC
		h.TailZero = true
		for _, b := range sec[h.HeaderSize:] {
			if b != 0 {
				h.TailZero = false
			}
		}
	}
	if !h.HeaderCRCOK {
		return h, nil
	}
	total := uint64(h.NumEntries) * uint64(h.EntrySize)
	// (a header that declares zero entries has an empty array, whose CRC is that of no bytes: not invalid in itself)
	if h.EntrySize < 128 || h.EntrySize%8 != 0 || total > 1<<24 {
		return h, nil
	}
	off := int64(h.ArrayLBA) * int64(lss)
	if h.ArrayLBA > uint64(diskSize)/uint64(lss) || off+int64(total) > diskSize {
		return h, nil
	}
	h.ArrayInRange = true
	arr, err := readFull(r, off, int(total))
	if err != nil {
		return h, nil
	}
	h.ArrayCRCOK = crc32.ChecksumIEEE(arr) == h.ArrayCRC
	for i := 0; i < int(h.NumEntries); i++ {
		e := arr[i*int(h.EntrySize) : (i+1)*int(h.EntrySize)]
		zero := true
		for _, b := range e[0:16] {
			if b != 0 {
				zero = false
			}
		}
		if zero {
			continue
		}
		ent := GPTEntry{Index: i + 1, TypeGUID: GUIDString(e[0:16]), GUID: GUIDString(e[16:32]),
			First: binary.LittleEndian.Uint64(e[32:40]), Last: binary.LittleEndian.Uint64(e[40:48]), Attrs: binary.LittleEndian.Uint64(e[48:56])}
		for j := 56; j+1 < 128; j += 2 {
			u := binary.LittleEndian.Uint16(e[j : j+2])
			if u == 0 {
				break
			}
			ent.NameU16 = append(ent.NameU16, u)
		}
		ent.Name = string(utf16.Decode(ent.NameU16))
		h.Entries = append(h.Entries, ent)
	}
	return h, nil
}

// Valid reports whether header and array are both CRC-valid.
func (h *GPTHeader) Valid() bool { return h != nil && h.SignatureOK && h.HeaderCRCOK && h.ArrayCRCOK }

type MBRSlot struct {
	Index    int
	Boot     byte
	Type     byte
	CHSStart [3]byte
	CHSEnd   [3]byte
	Start    uint32
	Sectors  uint32
}

type MBR struct {
	SignatureOK bool
	DiskSig     uint32
	Slots       [4]MBRSlot
}

func ParseMBR(r ReaderAt) (*MBR, error) {
	sec, err := readFull(r, 0, 512)
	if err != nil {
		return nil, err
	}
	m := &MBR{SignatureOK: sec[510] == 0x55 && sec[511] == 0xAA, DiskSig: binary.LittleEndian.Uint32(sec[440:444])}
	for i := 0; i < 4; i++ {
		e := sec[446+16*i : 446+16*(i+1)]
		m.Slots[i] = MBRSlot{Index: i + 1, Boot: e[0], Type: e[4], Start: binary.LittleEndian.Uint32(e[8:12]), Sectors: binary.LittleEndian.Uint32(e[12:16])}
		copy(m.Slots[i].CHSStart[:], e[1:4])
		copy(m.Slots[i].CHSEnd[:], e[5:8])
	}
	return m, nil
}

// IsProtective applies the UEFI rule: exactly one 0xEE entry starting at LBA 1
// covering min(diskSectors-1, 0xFFFFFFFF) sectors, the other slots empty.
func (m *MBR) IsProtective(diskSectors uint64) (bool, string) {
	if !m.SignatureOK {
		return false, "no 55AA signature"
	}
	s := m.Slots[0]
	if s.Type != 0xEE {
		return false, fmt.Sprintf("slot 1 type %#x, want 0xEE", s.Type)
	}
	if s.Boot != 0 {
		return false, "protective entry marked bootable"
	}
	if s.Start != 1 {
		return false, fmt.Sprintf("protective entry starts at %d, want 1", s.Start)
	}
	want := diskSectors - 1
	if want > 0xFFFFFFFF {
		want = 0xFFFFFFFF
	}
	if uint64(s.Sectors) != want {
		return false, fmt.Sprintf("protective entry covers %d sectors, want %d (disk has %d sectors)", s.Sectors, want, diskSectors)
	}
	for i := 1; i < 4; i++ {
		z := m.Slots[i]
		if z.Type != 0 || z.Start != 0 || z.Sectors != 0 || z.Boot != 0 {
			return false, fmt.Sprintf("slot %d not empty", i+1)
		}
	}
	return true, ""
}
