package indep

import (
	"encoding/binary"
	"fmt"
	"sort"
	"strings"
	"unicode/utf16"
)

// ISOFile is one directory record found by the independent walker.
type ISOFile struct {
	Path   string // names exactly as recorded (version suffix ";N" stripped), joined with "/"
	Dir    bool
	Extent uint32
	Size   uint32
	Flags  byte
	RR     RRInfo // Rock Ridge fields (RRFiles only)
}

type ISOReport struct {
	BlockSize   int
	VolumeSize  uint32 // in logical blocks
	VolumeID    string
	Files       []ISOFile
	Problems    []string
	HasJoliet   bool
	HasRR       bool
	RRFiles     []ISOFile // the tree as the Rock Ridge fields describe it (NM names, relocated directories in place); Path uses those names
	RRDiag      []string
	JolietFiles []ISOFile
	JolietDiag  []string // oddities of the supplementary (Joliet) tree; not part of the primary-tree verdict
}

func (r *ISOReport) prob(f string, a ...any) {
	if len(r.Problems) < 30 {
		r.Problems = append(r.Problems, fmt.Sprintf(f, a...))
	}
}

func both32(b []byte) (uint32, bool) {
	le := binary.LittleEndian.Uint32(b[0:4])
	be := binary.BigEndian.Uint32(b[4:8])
	return le, le == be
}

// WalkISO reads the primary volume descriptor of the image at [start,start+size)
// and walks the primary directory tree.
func WalkISO(r ReaderAt, start, size int64) *ISOReport {
	rep := &ISOReport{}
	var pvd []byte
	var svd []byte
	for i := 0; i < 16; i++ {
		vd, err := readFull(r, start+32768+int64(i)*2048, 2048)
		if err != nil {
			rep.prob("volume descriptor %d unreadable: %v", i, err)
			return rep
		}
		if string(vd[1:6]) != "CD001" {
			rep.prob("volume descriptor %d at byte %d has no CD001 signature", i, 32768+i*2048)
			return rep
		}
		if vd[0] == 255 {
			break
		}
		if vd[0] == 1 && pvd == nil {
			pvd = vd
		}
		if vd[0] == 2 && svd == nil && vd[88] == 0x25 && vd[89] == 0x2F {
			svd = vd
		}
	}
	if pvd == nil {
		rep.prob("no primary volume descriptor before the terminator")
		return rep
	}
	rep.VolumeID = strings.TrimRight(string(pvd[40:72]), " \x00")
	vs, ok := both32(pvd[80:88])
	if !ok {
		rep.prob("PVD volume space size: little- and big-endian copies differ")
	}
	rep.VolumeSize = vs
	bsLE := binary.LittleEndian.Uint16(pvd[128:130])
	bsBE := binary.BigEndian.Uint16(pvd[130:132])
	if bsLE != bsBE {
		rep.prob("PVD logical block size copies differ: %d vs %d", bsLE, bsBE)
	}
	rep.BlockSize = int(bsLE)
	if rep.BlockSize < 512 || rep.BlockSize&(rep.BlockSize-1) != 0 {
		rep.prob("PVD logical block size %d is not a power of two >= 512", rep.BlockSize)
		return rep
	}
	if int64(vs)*int64(rep.BlockSize) > size {
		rep.prob("PVD volume space %d blocks x %d bytes exceeds the %d-byte range given", vs, rep.BlockSize, size)
	}
	rep.Files = walkISOTree(r, start, size, rep, pvd[156:190], false)
	walkISORR(r, start, size, rep, pvd[156:190])
	if svd != nil {
		rep.HasJoliet = true
		keep := rep.Problems
		rep.Problems = nil
		rep.JolietFiles = walkISOTree(r, start, size, rep, svd[156:190], true)
		rep.JolietDiag = rep.Problems
		rep.Problems = keep
	}
	// extents: inside the volume, no overlap between distinct files/directories
	type span struct {
		lo, hi int64
		who    string
	}
	var spans []span
	limit := int64(vs) * int64(rep.BlockSize)
	for _, f := range rep.Files {
		if f.Size == 0 || (f.Extent == 0 && !f.Dir) {
			continue // empty files own nothing; extent 0 is used for records without data (Rock Ridge symlinks)
		}
		lo := int64(f.Extent) * int64(rep.BlockSize)
		hi := lo + int64(f.Size)
		if f.Extent < 18 {
			rep.prob("%s: extent %d lies inside the system area / volume descriptors", f.Path, f.Extent)
		}
		if hi > limit {
			rep.prob("%s: extent [%d,%d) ends beyond the volume space of %d bytes", f.Path, lo, hi, limit)
		}
		if hi > size {
			rep.prob("%s: extent [%d,%d) ends beyond the %d-byte range given", f.Path, lo, hi, size)
		}
		spans = append(spans, span{lo, (hi + int64(rep.BlockSize) - 1) / int64(rep.BlockSize) * int64(rep.BlockSize), f.Path})
	}
	sort.Slice(spans, func(i, j int) bool { return spans[i].lo < spans[j].lo })
	for i := 1; i < len(spans); i++ {
		if spans[i].lo < spans[i-1].hi {
			rep.prob("extents overlap: %s [%d,%d) and %s [%d,%d)", spans[i-1].who, spans[i-1].lo, spans[i-1].hi, spans[i].who, spans[i].lo, spans[i].hi)
		}
	}
	return rep
}

func walkISOTree(r ReaderAt, start, size int64, rep *ISOReport, rootRec []byte, joliet bool) []ISOFile {
	var out []ISOFile
	bs := int64(rep.BlockSize)
	rootExt, ok1 := both32(rootRec[2:10])
	rootLen, ok2 := both32(rootRec[10:18])
	if !ok1 || !ok2 {
		rep.prob("root directory record: both-endian fields differ")
	}
	type dirJob struct {
		path   string
		extent uint32
		length uint32
		depth  int
	}
	seen := map[uint32]bool{}
	jobs := []dirJob{{"", rootExt, rootLen, 0}}
	for len(jobs) > 0 {
		j := jobs[0]
		jobs = jobs[1:]
		if seen[j.extent] {
			rep.prob("directory extent %d reached twice (loop) at %q", j.extent, j.path)
			continue
		}
		seen[j.extent] = true
		if j.depth > 64 || j.length > 64<<20 {
			rep.prob("directory %q: implausible depth %d / length %d", j.path, j.depth, j.length)
			continue
		}
		off := int64(j.extent) * bs
		if off+int64(j.length) > size {
			rep.prob("directory %q: extent [%d,%d) beyond the %d-byte range", j.path, off, off+int64(j.length), size)
			continue
		}
		data, err := readFull(r, start+off, int(j.length))
		if err != nil {
			rep.prob("directory %q unreadable: %v", j.path, err)
			continue
		}
		names := map[string]bool{}
		for p := 0; p < len(data); {
			l := int(data[p])
			if l == 0 {
				// records do not cross sector boundaries; skip to the next one
				np := (p/int(bs) + 1) * int(bs)
				if np <= p {
					break
				}
				p = np
				continue
			}
			if l < 34 || p+l > len(data) {
				rep.prob("directory %q: record at offset %d has length %d (directory length %d)", j.path, p, l, len(data))
				break
			}
			if p/int(bs) != (p+l-1)/int(bs) {
				rep.prob("directory %q: record at offset %d crosses a sector boundary", j.path, p)
			}
			rec := data[p : p+l]
			p += l
			ext, o1 := both32(rec[2:10])
			ln, o2 := both32(rec[10:18])
			if !o1 || !o2 {
				rep.prob("directory %q: both-endian fields of a record differ", j.path)
			}
			flags := rec[25]
			idLen := int(rec[32])
			if 33+idLen > len(rec) {
				rep.prob("directory %q: identifier length %d exceeds the record", j.path, idLen)
				continue
			}
			id := rec[33 : 33+idLen]
			if idLen == 1 && (id[0] == 0 || id[0] == 1) {
				continue
			}
			var name string
			if joliet {
				u := make([]uint16, 0, idLen/2)
				for k := 0; k+1 < idLen; k += 2 {
					u = append(u, binary.BigEndian.Uint16(id[k:k+2]))
				}
				name = string(utf16.Decode(u))
			} else {
				name = string(id)
			}
			if i := strings.LastIndex(name, ";"); i >= 0 {
				name = name[:i]
			}
			if flags&2 == 0 {
				name = strings.TrimSuffix(name, ".")
			}
			if names[name] {
				rep.prob("directory %q: name %q appears twice", j.path, name)
			}
			names[name] = true
			full := name
			if j.path != "" {
				full = j.path + "/" + name
			}
			f := ISOFile{Path: full, Dir: flags&2 != 0, Extent: ext, Size: ln, Flags: flags}
			out = append(out, f)
			if f.Dir {
				jobs = append(jobs, dirJob{full, ext, ln, j.depth + 1})
			}
		}
	}
	return out
}

// ReadISOFile returns the bytes of a file record.
func ReadISOFile(r ReaderAt, start int64, bs int, f ISOFile) ([]byte, error) {
	if f.Size == 0 {
		return nil, nil
	}
	return readFull(r, start+int64(f.Extent)*int64(bs), int(f.Size))
}


// walkISORR walks the primary tree the way a Rock Ridge reader does: names from NM, symlinks from SL,
// a CL record stands for the relocated directory it points to, RE directories are not listed where they are stored.
func walkISORR(r ReaderAt, start, size int64, rep *ISOReport, rootRec []byte) {
	bs := int64(rep.BlockSize)
	rootExt, _ := both32(rootRec[2:10])
	rootLen, _ := both32(rootRec[10:18])
	diag := func(f string, a ...any) {
		if len(rep.RRDiag) < 30 {
			rep.RRDiag = append(rep.RRDiag, fmt.Sprintf(f, a...))
		}
	}
	type dirJob struct {
		path   string
		extent uint32
		length uint32
		depth  int
	}
	seen := map[uint32]bool{}
	jobs := []dirJob{{"", rootExt, rootLen, 0}}
	skip := 0
	firstDir := true
	for len(jobs) > 0 {
		j := jobs[0]
		jobs = jobs[1:]
		if seen[j.extent] || j.depth > 64 || j.length > 64<<20 {
			continue
		}
		seen[j.extent] = true
		off := int64(j.extent) * bs
		if off+int64(j.length) > size {
			diag("directory %q: extent beyond the range", j.path)
			continue
		}
		data, err := readFull(r, start+off, int(j.length))
		if err != nil {
			diag("directory %q unreadable: %v", j.path, err)
			continue
		}
		if firstDir {
			firstDir = false
			if len(data) > 0 && int(data[0]) <= len(data) {
				rep.HasRR, skip = suspSkip(data[:int(data[0])])
			}
			if !rep.HasRR {
				return
			}
		}
		for p := 0; p < len(data); {
			l := int(data[p])
			if l == 0 {
				np := (p/int(bs) + 1) * int(bs)
				if np <= p {
					break
				}
				p = np
				continue
			}
			if l < 34 || p+l > len(data) {
				diag("directory %q: record at offset %d has length %d", j.path, p, l)
				break
			}
			rec := data[p : p+l]
			p += l
			ext, _ := both32(rec[2:10])
			ln, _ := both32(rec[10:18])
			flags := rec[25]
			idLen := int(rec[32])
			if 33+idLen > len(rec) {
				continue
			}
			id := rec[33 : 33+idLen]
			if idLen == 1 && (id[0] == 0 || id[0] == 1) {
				continue
			}
			sp := 33 + idLen
			if idLen%2 == 0 {
				sp++
			}
			var su []byte
			if sp < len(rec) {
				su = rec[sp:]
			}
			rr := parseSUSP(r, start, int(bs), size, su, skip)
			for _, pr := range rr.Problems {
				diag("%q/%q: %s", j.path, string(id), pr)
			}
			if rr.Relocated {
				continue
			}
			name := string(id)
			if i := strings.LastIndex(name, ";"); i >= 0 {
				name = name[:i]
			}
			if rr.HasName {
				name = rr.Name
			}
			full := name
			if j.path != "" {
				full = j.path + "/" + name
			}
			f := ISOFile{Path: full, Dir: flags&2 != 0, Extent: ext, Size: ln, Flags: flags, RR: rr}
			if rr.ChildLink != 0 {
				// a placeholder for a relocated directory: its listing is at the child link
				f.Dir = true
				f.Extent = rr.ChildLink
				if dot, err := readFull(r, start+int64(rr.ChildLink)*bs, 34); err == nil {
					f.Size, _ = both32(dot[10:18])
				}
			}
			rep.RRFiles = append(rep.RRFiles, f)
			if f.Dir {
				jobs = append(jobs, dirJob{full, f.Extent, f.Size, j.depth + 1})
			}
		}
	}
}
