package indep

// Independent parser for the System Use Sharing Protocol / Rock Ridge fields of an ISO9660
// directory record (NM, SL, PX, TF, CL, RE, CE, SP, ST). Shares no code with the library.

import (
	"encoding/binary"
	"fmt"
	"strings"
	"time"
)

// RRInfo is what the Rock Ridge fields of one directory record say.
type RRInfo struct {
	Present   bool   // at least one Rock Ridge field (PX, NM, SL, TF, CL, RE) was found
	Name      string // NM (all parts joined); "" when absent
	HasName   bool
	Link      string // SL target; "" when absent
	IsLink    bool
	Mode      uint32 // PX
	NLink     uint32
	UID, GID  uint32
	HasPX     bool
	MTime     int64 // TF modify time, seconds since the epoch
	HasMTime  bool
	ChildLink uint32 // CL: extent of the relocated directory this record stands for
	Relocated bool   // RE: this directory was relocated here and is listed elsewhere through a CL record
	Problems  []string
}

func (i *RRInfo) prob(f string, a ...any) {
	if len(i.Problems) < 8 {
		i.Problems = append(i.Problems, fmt.Sprintf(f, a...))
	}
}

// parseSUSP walks the system use area su of a record; continuation areas are read from r.
// skip is the number of bytes to skip at the start of every system use area (from the SP entry).
func parseSUSP(r ReaderAt, start int64, bs int, size int64, su []byte, skip int) RRInfo {
	var info RRInfo
	var nameParts []string
	var comps []string   // finished symlink components
	var pending string   // component being continued
	havePending := false // a component with the CONTINUE flag is open
	type area struct{ b []byte }
	areas := []area{{su}}
	first := true
	seenCE := map[[2]uint32]bool{}
	for len(areas) > 0 {
		b := areas[0].b
		areas = areas[1:]
		if first && skip > 0 && skip <= len(b) {
			b = b[skip:]
		}
		first = false
		for len(b) >= 4 {
			sig := string(b[0:2])
			l := int(b[2])
			if sig[0] == 0 { // padding
				break
			}
			if l < 4 || l > len(b) {
				info.prob("SUSP entry %q has length %d, %d bytes left in its area", sig, l, len(b))
				break
			}
			e := b[:l]
			b = b[l:]
			switch sig {
			case "SP", "ER", "ES", "RR", "PN", "PL", "SF":
				if sig == "RR" || sig == "PL" {
					info.Present = true
				}
			case "ST":
				b = nil
			case "CE":
				if l < 28 {
					info.prob("CE entry of %d bytes", l)
					continue
				}
				blk, _ := both32(e[4:12])
				off, _ := both32(e[12:20])
				ln, _ := both32(e[20:28])
				key := [2]uint32{blk, off}
				if seenCE[key] {
					info.prob("continuation area at block %d offset %d is referenced twice (loop)", blk, off)
					continue
				}
				seenCE[key] = true
				at := int64(blk)*int64(bs) + int64(off)
				if ln > 1<<20 || at+int64(ln) > size {
					info.prob("continuation area [%d,+%d) lies outside the %d-byte range", at, ln, size)
					continue
				}
				ca, err := readFull(r, start+at, int(ln))
				if err != nil {
					info.prob("continuation area unreadable: %v", err)
					continue
				}
				areas = append(areas, area{ca})
			case "NM":
				info.Present = true
				if l < 5 {
					info.prob("NM entry of %d bytes", l)
					continue
				}
				fl := e[4]
				switch {
				case fl&2 != 0:
					nameParts = append(nameParts, ".")
				case fl&4 != 0:
					nameParts = append(nameParts, "..")
				default:
					nameParts = append(nameParts, string(e[5:]))
				}
				info.HasName = true
			case "SL":
				info.Present = true
				info.IsLink = true
				if l < 5 {
					info.prob("SL entry of %d bytes", l)
					continue
				}
				c := e[5:]
				for len(c) >= 2 {
					cf, cl := c[0], int(c[1])
					if 2+cl > len(c) {
						info.prob("SL component of %d bytes with %d bytes left", cl, len(c)-2)
						break
					}
					var part string
					switch {
					case cf&2 != 0:
						part = "."
					case cf&4 != 0:
						part = ".."
					case cf&8 != 0:
						part = "" // root: contributes the leading slash
					default:
						part = string(c[2 : 2+cl])
					}
					if havePending {
						pending += part
					} else {
						pending = part
					}
					if cf&1 != 0 {
						havePending = true
					} else {
						if cf&8 != 0 {
							comps = append(comps, "\x00root")
						} else {
							comps = append(comps, pending)
						}
						havePending = false
						pending = ""
					}
					c = c[2+cl:]
				}
			case "PX":
				info.Present = true
				if l < 36 {
					info.prob("PX entry of %d bytes", l)
					continue
				}
				info.Mode, _ = both32(e[4:12])
				info.NLink, _ = both32(e[12:20])
				info.UID, _ = both32(e[20:28])
				info.GID, _ = both32(e[28:36])
				info.HasPX = true
			case "TF":
				info.Present = true
				if l < 5 {
					continue
				}
				fl := e[4]
				w := 7
				if fl&0x80 != 0 {
					w = 17
				}
				p := 5
				for bit := 0; bit < 7; bit++ {
					if fl&(1<<uint(bit)) == 0 {
						continue
					}
					if p+w > l {
						info.prob("TF flags %#x need more timestamps than the %d-byte entry holds", fl, l)
						break
					}
					if bit == 1 && w == 7 {
						t := e[p : p+7]
						tm := time.Date(1900+int(t[0]), time.Month(t[1]), int(t[2]), int(t[3]), int(t[4]), int(t[5]), 0, time.UTC)
						info.MTime = tm.Unix() - int64(int8(t[6]))*15*60
						info.HasMTime = true
					}
					p += w
				}
			case "CL":
				info.Present = true
				if l >= 12 {
					info.ChildLink, _ = both32(e[4:12])
				}
			case "RE":
				info.Present = true
				info.Relocated = true
			}
		}
	}
	if havePending {
		comps = append(comps, pending)
	}
	if info.HasName {
		info.Name = strings.Join(nameParts, "")
	}
	if info.IsLink {
		var sb strings.Builder
		for i, c := range comps {
			if c == "\x00root" {
				sb.WriteString("/")
				continue
			}
			if i > 0 && comps[i-1] != "\x00root" {
				sb.WriteString("/")
			}
			sb.WriteString(c)
		}
		info.Link = sb.String()
	}
	return info
}

// suspSkip looks at the first record of the root directory ("." of the root) for the SP entry
// and returns (rock ridge in use, bytes to skip in every system use area).
func suspSkip(rootDot []byte) (bool, int) {
	if len(rootDot) < 34 {
		return false, 0
	}
	idLen := int(rootDot[32])
	p := 33 + idLen
	if idLen%2 == 0 {
		p++
	}
	if p+7 > len(rootDot) {
		return false, 0
	}
	su := rootDot[p:]
	if string(su[0:2]) == "SP" && su[2] == 7 && su[4] == 0xBE && su[5] == 0xEF {
		return true, int(su[6])
	}
	return false, 0
}

var _ = binary.LittleEndian
