package indep

import (
	"bytes"
	"context"
	"fmt"
	"os"
	"os/exec"
	"regexp"
	"sort"
	"strings"
	"time"
)

// e2fsprogs wrappers: the reference implementation is the oracle for ext4.

func e2bin(name string) string {
	for _, d := range []string{"/usr/sbin/", "/sbin/", "/usr/bin/"} {
		if _, err := os.Stat(d + name); err == nil {
			return d + name
		}
	}
	return name
}

type FsckResult struct {
	Exit   int
	Output string
	Infra  string // non-empty: the tool could not be run (not a verdict)
}

func runTool(timeout time.Duration, name string, args ...string) (int, string, string) {
	ctx, cancel := context.WithTimeout(context.Background(), timeout)
	defer cancel()
	cmd := exec.CommandContext(ctx, e2bin(name), args...)
	cmd.Env = append(os.Environ(), "LC_ALL=C", "E2FSPROGS_SKIP_PROGRESS=1")
	var out bytes.Buffer
	cmd.Stdout = &out
	cmd.Stderr = &out
	err := cmd.Run()
	if ctx.Err() != nil {
		return -1, out.String(), "timeout running " + name
	}
	if err != nil {
		if ee, ok := err.(*exec.ExitError); ok {
			return ee.ExitCode(), out.String(), ""
		}
		return -1, out.String(), fmt.Sprintf("cannot run %s: %v", name, err)
	}
	return 0, out.String(), ""
}

// E2fsck runs e2fsck -f -n on an image file.
func E2fsck(img string) FsckResult {
	code, out, infra := runTool(120*time.Second, "e2fsck", "-f", "-n", img)
	return FsckResult{Exit: code, Output: out, Infra: infra}
}

var numRe = regexp.MustCompile(`[0-9]+`)

// Problems returns the problem lines (without the banner and pass headers).
func (r FsckResult) Problems() string {
	var keep []string
	for _, l := range strings.Split(r.Output, "\n") {
		l = strings.TrimSpace(l)
		if l == "" || strings.HasPrefix(l, "e2fsck ") || strings.HasPrefix(l, "Pass ") || strings.Contains(l, "files (") {
			continue
		}
		keep = append(keep, l)
		if len(keep) >= 14 {
			keep = append(keep, "...")
			break
		}
	}
	return strings.Join(keep, " | ")
}

// Sig is a short stable signature: the distinct problem kinds with numbers removed.
func (r FsckResult) Sig() string {
	set := map[string]bool{}
	for _, l := range strings.Split(r.Output, "\n") {
		l = strings.TrimSpace(l)
		if l == "" || strings.HasPrefix(l, "e2fsck ") || strings.HasPrefix(l, "Pass ") || strings.Contains(l, "files (") || strings.HasSuffix(l, "? no") && len(l) < 12 {
			continue
		}
		l = numRe.ReplaceAllString(l, "N")
		w := strings.Fields(l)
		if len(w) > 5 {
			w = w[:5]
		}
		set[strings.Join(w, "_")] = true
	}
	var ks []string
	for k := range set {
		ks = append(ks, k)
	}
	sort.Strings(ks)
	if len(ks) > 3 {
		ks = ks[:3]
	}
	return strings.Join(ks, "+")
}

// DebugfsRdump extracts dir of the image into out. Returns "" or an infrastructure message.
func DebugfsRdump(img, dir, out string) string {
	code, o, infra := runTool(120*time.Second, "debugfs", "-R", fmt.Sprintf("rdump %s %s", dir, out), img)
	if infra != "" {
		return infra
	}
	if code != 0 {
		return "debugfs exit " + fmt.Sprint(code) + ": " + o
	}
	return ""
}

// Debugfs runs one request and returns its output.
func Debugfs(img string, write bool, req string) (string, string) {
	args := []string{"-R", req, img}
	if write {
		args = append([]string{"-w"}, args...)
	}
	_, o, infra := runTool(120*time.Second, "debugfs", args...)
	return o, infra
}

// DebugfsScript runs a command file (-f) in write mode.
func DebugfsScript(img, script string) (string, string) {
	_, o, infra := runTool(300*time.Second, "debugfs", "-w", "-f", script, img)
	return o, infra
}

// Mke2fs builds an image. args are passed through; img and size (in KiB) appended.
func Mke2fs(img string, sizeKiB int64, args ...string) (string, string) {
	a := append([]string{"-q", "-F"}, args...)
	a = append(a, img, fmt.Sprintf("%dk", sizeKiB))
	code, o, infra := runTool(300*time.Second, "mke2fs", a...)
	if infra == "" && code != 0 {
		infra = fmt.Sprintf("mke2fs exit %d: %s", code, o)
	}
	return o, infra
}

// E2fsckFix runs e2fsck -fyD (forces directory re-hashing).
func E2fsckFix(img string) (int, string, string) {
	return runTool(300*time.Second, "e2fsck", "-f", "-y", "-D", img)
}
