package indep

import (
	"encoding/binary"
	"fmt"
	"sort"
	"strings"
	"unicode/utf16"
)

// FATReport is the result of an independent structural check of a FAT volume.
type FATReport struct {
	Kind           string // fat12, fat16, fat32 as laid out on disk
	BytesPerSector int
	SecPerCluster  int
	Reserved       int
	NumFATs        int
	RootEntries    int
	TotalSectors   uint64
	FATSectors     uint64
	Clusters       uint32 // number of data clusters
	DataStart      int64  // byte offset of cluster 2 from the volume start
	ClusterBytes   int
	Violations     []string // what the statement of C08 promises and the bytes contradict
	Diag           []string // other oddities (not promised)
	Entries        []FATEntry
	UsedClusters   int
	FreeClusters   int
}

type FATEntry struct {
	Path    string
	Short   string
	Long    string
	Dir     bool
	Attr    byte
	Size    uint32
	First   uint32
	Chain   []uint32
	CrtTime uint16
	CrtDate uint16
	AccDate uint16
	WrtTime uint16
	WrtDate uint16
	NTRes   byte
}

func (r *FATReport) viol(f string, a ...any) {
	if len(r.Violations) < 30 {
		r.Violations = append(r.Violations, fmt.Sprintf(f, a...))
	}
}
func (r *FATReport) diag(f string, a ...any) {
	if len(r.Diag) < 30 {
		r.Diag = append(r.Diag, fmt.Sprintf(f, a...))
	}
}

type fatVol struct {
	r     ReaderAt
	start int64
	rep   *FATReport
	fat   []byte
}

func (v *fatVol) entry(c uint32) uint32 {
	switch v.rep.Kind {
	case "fat12":
		o := int(c) + int(c)/2
		if o+1 >= len(v.fat) {
			return 0xFFFFFFFF
		}
		w := uint32(v.fat[o]) | uint32(v.fat[o+1])<<8
		if c&1 == 1 {
			return w >> 4
		}
		return w & 0xFFF
	case "fat16":
		o := int(c) * 2
		if o+1 >= len(v.fat) {
			return 0xFFFFFFFF
		}
		return uint32(binary.LittleEndian.Uint16(v.fat[o:]))
	default:
		o := int(c) * 4
		if o+3 >= len(v.fat) {
			return 0xFFFFFFFF
		}
		return binary.LittleEndian.Uint32(v.fat[o:]) & 0x0FFFFFFF
	}
}

func (v *fatVol) isEOC(x uint32) bool {
	switch v.rep.Kind {
	case "fat12":
		return x >= 0xFF8 && x <= 0xFFF
	case "fat16":
		return x >= 0xFFF8 && x <= 0xFFFF
	default:
		return x >= 0x0FFFFFF8 && x <= 0x0FFFFFFF
	}
}

func (v *fatVol) isBad(x uint32) bool {
	switch v.rep.Kind {
	case "fat12":
		return x == 0xFF7
	case "fat16":
		return x == 0xFFF7
	default:
		return x == 0x0FFFFFF7
	}
}

// CheckFAT parses the volume at [start, start+size) of r. kind is what the
// caller created ("fat12", "fat16", "fat32").
func CheckFAT(r ReaderAt, start, size int64, kind string) *FATReport {
	rep := &FATReport{Kind: kind}
	bs, err := readFull(r, start, 512)
	if err != nil {
		rep.viol("boot sector unreadable: %v", err)
		return rep
	}
	if bs[510] != 0x55 || bs[511] != 0xAA {
		rep.viol("boot sector signature is %02x%02x, want 55aa", bs[510], bs[511])
		return rep
	}
	rep.BytesPerSector = int(binary.LittleEndian.Uint16(bs[11:13]))
	rep.SecPerCluster = int(bs[13])
	rep.Reserved = int(binary.LittleEndian.Uint16(bs[14:16]))
	rep.NumFATs = int(bs[16])
	rep.RootEntries = int(binary.LittleEndian.Uint16(bs[17:19]))
	ts16 := uint64(binary.LittleEndian.Uint16(bs[19:21]))
	fs16 := uint64(binary.LittleEndian.Uint16(bs[22:24]))
	ts32 := uint64(binary.LittleEndian.Uint32(bs[32:36]))
	rep.TotalSectors = ts16
	if ts16 == 0 {
		rep.TotalSectors = ts32
	}
	if ts16 != 0 && ts32 != 0 && ts16 != ts32 {
		// a reader that follows the specification takes the 16-bit field when it is not zero
		rep.viol("geometry: the 16-bit total sector count says %d, the 32-bit one %d", ts16, ts32)
	}
	rep.FATSectors = fs16
	isFAT32Layout := fs16 == 0 && rep.RootEntries == 0
	if isFAT32Layout {
		rep.FATSectors = uint64(binary.LittleEndian.Uint32(bs[36:40]))
	}
	if (kind == "fat32") != isFAT32Layout {
		rep.viol("boot sector layout (FAT32 style=%v) does not match the created type %s", isFAT32Layout, kind)
		return rep
	}
	bps := rep.BytesPerSector
	if bps != 512 && bps != 1024 && bps != 2048 && bps != 4096 {
		rep.viol("bytes per sector %d is not a legal value", bps)
		return rep
	}
	spc := rep.SecPerCluster
	if spc == 0 || spc&(spc-1) != 0 {
		rep.viol("sectors per cluster %d is not a power of two", spc)
		return rep
	}
	if rep.NumFATs != 2 {
		rep.viol("number of FATs is %d, want 2", rep.NumFATs)
		return rep
	}
	if rep.Reserved == 0 {
		rep.viol("reserved sector count is 0")
		return rep
	}
	if rep.TotalSectors == 0 {
		rep.viol("total sector count is 0")
		return rep
	}
	if int64(rep.TotalSectors)*int64(bps) > size {
		rep.viol("geometry: total sectors %d x %d bytes = %d exceeds the %d-byte range given", rep.TotalSectors, bps, int64(rep.TotalSectors)*int64(bps), size)
	}
	if size-int64(rep.TotalSectors)*int64(bps) >= int64(bps)*int64(spc)*2 && size-int64(rep.TotalSectors)*int64(bps) >= 1<<20 {
		rep.diag("geometry: volume uses %d of the %d bytes given", int64(rep.TotalSectors)*int64(bps), size)
	}
	rootDirSectors := uint64((rep.RootEntries*32 + bps - 1) / bps)
	meta := uint64(rep.Reserved) + uint64(rep.NumFATs)*rep.FATSectors + rootDirSectors
	if meta >= rep.TotalSectors {
		rep.viol("geometry: reserved+FATs+root = %d sectors leaves no data area in %d sectors", meta, rep.TotalSectors)
		return rep
	}
	dataSectors := rep.TotalSectors - meta
	rep.Clusters = uint32(dataSectors / uint64(spc))
	rep.ClusterBytes = bps * spc
	rep.DataStart = int64(meta) * int64(bps)
	// the FAT must be able to describe every data cluster
	var fatEntries uint64
	switch kind {
	case "fat12":
		fatEntries = rep.FATSectors * uint64(bps) * 2 / 3
	case "fat16":
		fatEntries = rep.FATSectors * uint64(bps) / 2
	default:
		fatEntries = rep.FATSectors * uint64(bps) / 4
	}
	if fatEntries < uint64(rep.Clusters)+2 {
		rep.viol("geometry: FAT holds %d entries but the data area has %d clusters (+2 reserved)", fatEntries, rep.Clusters)
	}
	switch kind {
	case "fat12":
		if rep.Clusters >= 4085 {
			rep.viol("geometry: %d clusters is too many for FAT12", rep.Clusters)
		}
	case "fat16":
		if rep.Clusters < 4085 || rep.Clusters >= 65525 {
			rep.viol("geometry: %d clusters is outside the FAT16 range", rep.Clusters)
		}
	}
	v := &fatVol{r: r, start: start, rep: rep}
	fatBytes := int(rep.FATSectors) * bps
	fat1, err := readFull(r, start+int64(rep.Reserved)*int64(bps), fatBytes)
	if err != nil {
		rep.viol("first FAT unreadable: %v", err)
		return rep
	}
	fat2, err := readFull(r, start+int64(rep.Reserved)*int64(bps)+int64(fatBytes), fatBytes)
	if err != nil {
		rep.viol("second FAT unreadable: %v", err)
		return rep
	}
	for i := range fat1 {
		if fat1[i] != fat2[i] {
			rep.viol("the two FAT copies differ at byte %d (%02x vs %02x)", i, fat1[i], fat2[i])
			break
		}
	}
	v.fat = fat1
	if kind == "fat32" {
		bk := int(binary.LittleEndian.Uint16(bs[50:52]))
		fsi := int(binary.LittleEndian.Uint16(bs[48:50]))
		if bk == 0 || bk >= rep.Reserved {
			rep.viol("FAT32 backup boot sector number %d is not inside the %d reserved sectors", bk, rep.Reserved)
		} else {
			full, e1 := readFull(r, start, bps)
			bkb, e2 := readFull(r, start+int64(bk)*int64(bps), bps)
			if e1 != nil || e2 != nil {
				rep.viol("FAT32 backup boot sector unreadable")
			} else {
				for i := range full {
					if full[i] != bkb[i] {
						rep.viol("FAT32 backup boot sector (sector %d) differs from the boot sector at byte %d", bk, i)
						break
					}
				}
			}
		}
		if fsi == 0 || fsi >= rep.Reserved {
			rep.viol("FAT32 FSInfo sector number %d is not inside the reserved area", fsi)
		} else if fb, err := readFull(r, start+int64(fsi)*int64(bps), 512); err != nil {
			rep.viol("FSInfo unreadable")
		} else {
			if binary.LittleEndian.Uint32(fb[0:4]) != 0x41615252 || binary.LittleEndian.Uint32(fb[484:488]) != 0x61417272 || binary.LittleEndian.Uint32(fb[508:512]) != 0xAA550000 {
				rep.viol("FSInfo signatures wrong: %08x %08x %08x", binary.LittleEndian.Uint32(fb[0:4]), binary.LittleEndian.Uint32(fb[484:488]), binary.LittleEndian.Uint32(fb[508:512]))
			}
			free := binary.LittleEndian.Uint32(fb[488:492])
			next := binary.LittleEndian.Uint32(fb[492:496])
			if free != 0xFFFFFFFF && free > rep.Clusters {
				rep.viol("FSInfo free cluster count %d exceeds the %d clusters of the volume", free, rep.Clusters)
			}
			if next != 0xFFFFFFFF && (next < 2 || next > rep.Clusters+1) {
				rep.viol("FSInfo next-free hint %d is outside the cluster range 2..%d", next, rep.Clusters+1)
			}
		}
	}
	// walk the tree
	owner := map[uint32]string{}
	maxC := rep.Clusters + 1
	chain := func(first uint32, who string) ([]uint32, bool) {
		var out []uint32
		seen := map[uint32]bool{}
		c := first
		for {
			if c < 2 || c > maxC {
				rep.viol("%s: chain contains cluster %d outside the data area 2..%d", who, c, maxC)
				return out, false
			}
			if seen[c] {
				rep.viol("%s: chain loops at cluster %d", who, c)
				return out, false
			}
			seen[c] = true
			if o, ok := owner[c]; ok {
				rep.viol("cluster %d belongs to both %s and %s", c, o, who)
				return out, false
			}
			owner[c] = who
			out = append(out, c)
			nx := v.entry(c)
			if v.isEOC(nx) {
				return out, true
			}
			if nx == 0 {
				rep.viol("%s: chain runs into free cluster after cluster %d (no end-of-chain mark)", who, c)
				return out, false
			}
			if v.isBad(nx) {
				rep.viol("%s: chain runs into a bad-cluster mark after cluster %d", who, c)
				return out, false
			}
			c = nx
			if len(out) > int(rep.Clusters)+2 {
				rep.viol("%s: chain longer than the volume", who)
				return out, false
			}
		}
	}
	readClusters := func(cs []uint32) []byte {
		var b []byte
		for _, c := range cs {
			cb, err := readFull(r, start+rep.DataStart+int64(c-2)*int64(rep.ClusterBytes), rep.ClusterBytes)
			if err != nil {
				rep.viol("cluster %d unreadable (beyond the device?): %v", c, err)
				return b
			}
			b = append(b, cb...)
		}
		return b
	}
	var walk func(path string, raw []byte, depth int)
	walk = func(path string, raw []byte, depth int) {
		if depth > 40 {
			rep.viol("directory nesting deeper than 40 at %s", path)
			return
		}
		var lfnParts []string
		var lfnSum byte
		shortSeen := map[string]bool{}
		for i := 0; i+32 <= len(raw); i += 32 {
			e := raw[i : i+32]
			if e[0] == 0 {
				break
			}
			if e[0] == 0xE5 {
				lfnParts = nil
				continue
			}
			attr := e[11]
			if attr&0x3F == 0x0F {
				var u []uint16
				for _, rg := range [][2]int{{1, 11}, {14, 26}, {28, 32}} {
					for j := rg[0]; j < rg[1]; j += 2 {
						u = append(u, binary.LittleEndian.Uint16(e[j:j+2]))
					}
				}
				k := len(u)
				for j, x := range u {
					if x == 0 {
						k = j
						break
					}
				}
				part := string(utf16.Decode(u[:k]))
				if e[0]&0x40 != 0 {
					lfnParts = nil
				}
				lfnParts = append([]string{part}, lfnParts...)
				lfnSum = e[13]
				continue
			}
			if attr&0x08 != 0 {
				lfnParts = nil
				continue // volume label
			}
			name := strings.TrimRight(string(e[0:8]), " ")
			ext := strings.TrimRight(string(e[8:11]), " ")
			short := name
			if ext != "" {
				short += "." + ext
			}
			long := strings.Join(lfnParts, "")
			if long != "" {
				var sum byte
				for j := 0; j < 11; j++ {
					sum = ((sum & 1) << 7) + (sum >> 1) + e[j]
				}
				if sum != lfnSum {
					rep.diag("%s/%s: LFN checksum %02x does not match the short name's %02x", path, short, lfnSum, sum)
				}
			}
			lfnParts = nil
			if short == "." || short == ".." {
				continue
			}
			if shortSeen[short] {
				rep.diag("%s: duplicate short name %s", path, short)
			}
			shortSeen[short] = true
			first := uint32(binary.LittleEndian.Uint16(e[26:28])) | uint32(binary.LittleEndian.Uint16(e[20:22]))<<16
			ent := FATEntry{Short: short, Long: long, Dir: attr&0x10 != 0, Attr: attr, Size: binary.LittleEndian.Uint32(e[28:32]), First: first, NTRes: e[12],
				CrtTime: binary.LittleEndian.Uint16(e[14:16]), CrtDate: binary.LittleEndian.Uint16(e[16:18]), AccDate: binary.LittleEndian.Uint16(e[18:20]),
				WrtTime: binary.LittleEndian.Uint16(e[22:24]), WrtDate: binary.LittleEndian.Uint16(e[24:26])}
			dn := long
			if dn == "" {
				dn = short
			}
			ent.Path = path + "/" + dn
			who := "entry " + ent.Path
			if first == 0 {
				if ent.Dir {
					rep.viol("%s: directory without a cluster", who)
				} else if ent.Size != 0 {
					rep.viol("%s: size %d but no first cluster", who, ent.Size)
				}
				rep.Entries = append(rep.Entries, ent)
				continue
			}
			cs, ok := chain(first, who)
			ent.Chain = cs
			rep.Entries = append(rep.Entries, ent)
			if !ok {
				continue
			}
			if !ent.Dir {
				need := (int64(ent.Size) + int64(rep.ClusterBytes) - 1) / int64(rep.ClusterBytes)
				if int64(len(cs)) < need {
					rep.viol("%s: size %d needs %d clusters but the chain has %d", who, ent.Size, need, len(cs))
				}
			} else {
				walk(ent.Path, readClusters(cs), depth+1)
			}
		}
	}
	if kind == "fat32" {
		rootClus := binary.LittleEndian.Uint32(bs[44:48])
		cs, ok := chain(rootClus, "root directory")
		if ok {
			walk("", readClusters(cs), 0)
		}
	} else {
		rootOff := start + (int64(rep.Reserved)+int64(rep.NumFATs)*int64(rep.FATSectors))*int64(bps)
		raw, err := readFull(r, rootOff, rep.RootEntries*32)
		if err != nil {
			rep.viol("root directory region unreadable: %v", err)
			return rep
		}
		walk("", raw, 0)
	}
	// lost clusters
	var lost []uint32
	for c := uint32(2); c <= maxC; c++ {
		x := v.entry(c)
		if x == 0 {
			rep.FreeClusters++
			continue
		}
		if v.isBad(x) {
			continue
		}
		rep.UsedClusters++
		if _, ok := owner[c]; !ok {
			lost = append(lost, c)
		}
	}
	if len(lost) > 0 {
		sort.Slice(lost, func(i, j int) bool { return lost[i] < lost[j] })
		show := lost
		if len(show) > 8 {
			show = show[:8]
		}
		rep.viol("%d cluster(s) marked used that no file or directory owns (lost clusters), first: %v", len(lost), show)
	}
	// entries past the data area must not be allocated either
	for c := maxC + 1; uint64(c) < fatEntries && c < maxC+1+4096; c++ {
		if x := v.entry(c); x != 0 && x != 0xFFFFFFFF {
			rep.diag("FAT entry %d beyond the last data cluster %d is non-zero (%#x)", c, maxC, x)
			break
		}
	}
	return rep
}
