package indep

// An independent squashfs 4.0 reader: superblock, metadata blocks, inode table,
// directory table, fragment table, id table, data blocks. It shares no code with
// github.com/diskfs/go-diskfs/filesystem/squashfs; decompression uses the
// standard library (zlib) and the third-party decoders for xz, lz4 and zstd.

import (
	"bytes"
	"compress/zlib"
	"encoding/binary"
	"fmt"
	"io"

	"github.com/klauspost/compress/zstd"
	lz4 "github.com/pierrec/lz4/v4"
	"github.com/ulikunitz/xz"
)

// SqNode is one entry of the image, as the independent reader sees it.
type SqNode struct {
	Path   string
	Kind   byte // 'd', 'f', 'l', 'o' (other)
	Mode   uint16
	UID    uint32
	GID    uint32
	MTime  uint32
	Inode  uint32
	NLink  uint32
	Size   int64
	Data   []byte
	Target string
	Frag   bool // file has a tail in a fragment block
	Blocks int  // number of full data blocks
	Ext    bool // extended inode
}

type SqImage struct {
	Nodes     map[string]*SqNode
	BlockSize uint32
	Comp      uint16
	Flags     uint16
	Inodes    uint32
	Frags     uint32
	BytesUsed uint64
	IDs       []uint32
	LZ4Frames int // blocks stored as lz4 frames instead of raw lz4 blocks
}

type sqReader struct {
	r         ReaderAt
	start     int64
	size      int64
	comp      uint16
	blockSize uint32
	inodeTab  uint64
	dirTab    uint64
	fragTab   uint64
	idTab     uint64
	bytesUsed uint64
	ids       []uint32
	frags     []sqFragEntry
	fragCache map[uint32][]byte
	zdec      *zstd.Decoder
	limit     int64 // total payload budget
	lz4Frames int
}

type sqFragEntry struct {
	start uint64
	size  uint32
}

func (s *sqReader) at(off uint64, n int) ([]byte, error) {
	if int64(off)+int64(n) > s.size || n < 0 {
		return nil, fmt.Errorf("read of %d bytes at %d lies outside the filesystem range of %d bytes", n, off, s.size)
	}
	b := make([]byte, n)
	if _, err := s.r.ReadAt(b, s.start+int64(off)); err != nil && err != io.EOF {
		return nil, err
	}
	return b, nil
}

func (s *sqReader) decompress(in []byte, max int) ([]byte, error) {
	switch s.comp {
	case 1:
		zr, err := zlib.NewReader(bytes.NewReader(in))
		if err != nil {
			return nil, err
		}
		return io.ReadAll(io.LimitReader(zr, int64(max)+1))
	case 4:
		xr, err := xz.NewReader(bytes.NewReader(in))
		if err != nil {
			return nil, err
		}
		return io.ReadAll(io.LimitReader(xr, int64(max)+1))
	case 5:
		if len(in) >= 4 && binary.LittleEndian.Uint32(in) == 0x184D2204 {
			// the library stores lz4 *frames*; mksquashfs and the kernel use raw lz4 blocks. The property
			// does not promise interoperability, so the frame form is accepted and noted.
			s.lz4Frames++
			return io.ReadAll(io.LimitReader(lz4.NewReader(bytes.NewReader(in)), int64(max)+1))
		}
		out := make([]byte, max)
		n, err := lz4.UncompressBlock(in, out)
		if err != nil {
			return nil, err
		}
		return out[:n], nil
	case 6:
		if s.zdec == nil {
			d, err := zstd.NewReader(nil)
			if err != nil {
				return nil, err
			}
			s.zdec = d
		}
		return s.zdec.DecodeAll(in, nil)
	}
	return nil, fmt.Errorf("compressor id %d not supported by the independent reader", s.comp)
}

// metaBlock reads the metadata block at absolute (filesystem-relative) offset off;
// returns its uncompressed bytes and the on-disk length including the header.
func (s *sqReader) metaBlock(off uint64) ([]byte, int, error) {
	h, err := s.at(off, 2)
	if err != nil {
		return nil, 0, err
	}
	hv := binary.LittleEndian.Uint16(h)
	n := int(hv & 0x7fff)
	if n == 0 || n > 8192 {
		return nil, 0, fmt.Errorf("metadata block at %d has on-disk size %d", off, n)
	}
	raw, err := s.at(off+2, n)
	if err != nil {
		return nil, 0, err
	}
	if hv&0x8000 != 0 {
		return raw, n + 2, nil
	}
	out, err := s.decompress(raw, 8192)
	if err != nil {
		return nil, 0, fmt.Errorf("metadata block at %d: %w", off, err)
	}
	if len(out) > 8192 {
		return nil, 0, fmt.Errorf("metadata block at %d decompresses to more than 8 KiB", off)
	}
	return out, n + 2, nil
}

// metaCursor reads a byte stream that continues across consecutive metadata blocks.
type metaCursor struct {
	s     *sqReader
	next  uint64 // offset of the next block on disk
	end   uint64 // blocks must start before this offset
	buf   []byte
	start uint64 // on-disk offset of the block buf came from (relative to table start is computed by caller)
}

func (s *sqReader) cursor(table uint64, blockOff uint64, inner int, end uint64) (*metaCursor, error) {
	c := &metaCursor{s: s, next: table + blockOff, end: end}
	if err := c.load(); err != nil {
		return nil, err
	}
	if inner > len(c.buf) {
		return nil, fmt.Errorf("offset %d beyond the %d bytes of the metadata block at %d", inner, len(c.buf), table+blockOff)
	}
	c.buf = c.buf[inner:]
	return c, nil
}

func (c *metaCursor) load() error {
	if c.next >= c.end {
		return fmt.Errorf("metadata stream runs past the end of its table (block at %d, table ends at %d)", c.next, c.end)
	}
	b, n, err := c.s.metaBlock(c.next)
	if err != nil {
		return err
	}
	c.start = c.next
	c.next += uint64(n)
	c.buf = b
	return nil
}

func (c *metaCursor) read(n int) ([]byte, error) {
	out := make([]byte, 0, n)
	for len(out) < n {
		if len(c.buf) == 0 {
			if err := c.load(); err != nil {
				return nil, err
			}
		}
		k := n - len(out)
		if k > len(c.buf) {
			k = len(c.buf)
		}
		out = append(out, c.buf[:k]...)
		c.buf = c.buf[k:]
	}
	return out, nil
}

// lookupTable reads a two-level table (id table, fragment table): count entries of entrySize bytes,
// stored in metadata blocks whose addresses are listed at tabOff.
func (s *sqReader) lookupTable(tabOff uint64, count, entrySize int) ([]byte, error) {
	total := count * entrySize
	nblocks := (total + 8191) / 8192
	ptrs, err := s.at(tabOff, nblocks*8)
	if err != nil {
		return nil, err
	}
	var out []byte
	for i := 0; i < nblocks; i++ {
		b, _, err := s.metaBlock(binary.LittleEndian.Uint64(ptrs[i*8:]))
		if err != nil {
			return nil, err
		}
		out = append(out, b...)
	}
	if len(out) < total {
		return nil, fmt.Errorf("lookup table at %d holds %d bytes, %d entries of %d bytes need %d", tabOff, len(out), count, entrySize, total)
	}
	return out[:total], nil
}

func (s *sqReader) dataBlock(off uint64, sizeWord uint32, want int) ([]byte, error) {
	n := int(sizeWord & 0xffffff)
	if n == 0 {
		return make([]byte, want), nil // sparse block
	}
	raw, err := s.at(off, n)
	if err != nil {
		return nil, err
	}
	if sizeWord&(1<<24) != 0 {
		return raw, nil
	}
	out, err := s.decompress(raw, int(s.blockSize))
	if err != nil {
		return nil, fmt.Errorf("data block at %d (%d bytes): %w", off, n, err)
	}
	return out, nil
}

func (s *sqReader) fragment(idx uint32) ([]byte, error) {
	if b, ok := s.fragCache[idx]; ok {
		return b, nil
	}
	if int(idx) >= len(s.frags) {
		return nil, fmt.Errorf("fragment index %d, table has %d entries", idx, len(s.frags))
	}
	f := s.frags[idx]
	b, err := s.dataBlock(f.start, f.size, int(s.blockSize))
	if err != nil {
		return nil, fmt.Errorf("fragment block %d: %w", idx, err)
	}
	if len(s.fragCache) > 8 {
		s.fragCache = map[uint32][]byte{}
	}
	s.fragCache[idx] = b
	return b, nil
}

// ReadSquashfs parses the squashfs image in r[start, start+size) completely.
func ReadSquashfs(r ReaderAt, start, size int64) (*SqImage, error) {
	s := &sqReader{r: r, start: start, size: size, fragCache: map[uint32][]byte{}, limit: 1 << 30}
	sb, err := s.at(0, 96)
	if err != nil {
		return nil, err
	}
	le := binary.LittleEndian
	if le.Uint32(sb[0:4]) != 0x73717368 {
		return nil, fmt.Errorf("bad magic %#x", le.Uint32(sb[0:4]))
	}
	img := &SqImage{Nodes: map[string]*SqNode{}}
	img.Inodes = le.Uint32(sb[4:8])
	s.blockSize = le.Uint32(sb[12:16])
	img.BlockSize = s.blockSize
	img.Frags = le.Uint32(sb[16:20])
	s.comp = le.Uint16(sb[20:22])
	img.Comp = s.comp
	img.Flags = le.Uint16(sb[24:26])
	idCount := int(le.Uint16(sb[26:28]))
	root := le.Uint64(sb[32:40])
	s.bytesUsed = le.Uint64(sb[40:48])
	img.BytesUsed = s.bytesUsed
	s.idTab = le.Uint64(sb[48:56])
	s.inodeTab = le.Uint64(sb[64:72])
	s.dirTab = le.Uint64(sb[72:80])
	s.fragTab = le.Uint64(sb[80:88])
	if s.blockSize < 4096 || s.blockSize > 1<<20 || s.blockSize&(s.blockSize-1) != 0 {
		return nil, fmt.Errorf("block size %d", s.blockSize)
	}
	if int64(s.bytesUsed) > size {
		return nil, fmt.Errorf("bytes_used %d exceeds the %d bytes of the range", s.bytesUsed, size)
	}
	if s.inodeTab >= s.dirTab || s.dirTab > s.bytesUsed {
		return nil, fmt.Errorf("table pointers out of order: inode table %d, directory table %d, bytes_used %d", s.inodeTab, s.dirTab, s.bytesUsed)
	}
	idb, err := s.lookupTable(s.idTab, idCount, 4)
	if err != nil {
		return nil, fmt.Errorf("id table: %w", err)
	}
	for i := 0; i < idCount; i++ {
		s.ids = append(s.ids, le.Uint32(idb[i*4:]))
	}
	img.IDs = s.ids
	if img.Frags > 0 {
		if s.fragTab == ^uint64(0) {
			return nil, fmt.Errorf("superblock counts %d fragments but has no fragment table", img.Frags)
		}
		fb, err := s.lookupTable(s.fragTab, int(img.Frags), 16)
		if err != nil {
			return nil, fmt.Errorf("fragment table: %w", err)
		}
		for i := 0; i < int(img.Frags); i++ {
			s.frags = append(s.frags, sqFragEntry{start: le.Uint64(fb[i*16:]), size: le.Uint32(fb[i*16+8:])})
		}
	}
	dirEnd := s.bytesUsed
	for _, t := range []uint64{s.fragTab, le.Uint64(sb[88:96]), s.idTab, le.Uint64(sb[56:64])} {
		if t != ^uint64(0) && t != 0 && t > s.dirTab && t < dirEnd {
			dirEnd = t
		}
	}
	rootNode, err := s.inode(root, "")
	if err != nil {
		return nil, fmt.Errorf("root inode: %w", err)
	}
	if rootNode.Kind != 'd' {
		return nil, fmt.Errorf("root inode is not a directory")
	}
	rootNode.Path = "."
	img.Nodes["."] = rootNode.SqNode
	if err := s.walk(img, rootNode, "", dirEnd, 0); err != nil {
		return nil, err
	}
	img.LZ4Frames = s.lz4Frames
	return img, nil
}

type sqInode struct {
	*SqNode
	dirBlock  uint32
	dirOffset uint16
	dirSize   uint32
}

func (s *sqReader) inode(ref uint64, path string) (*sqInode, error) {
	le := binary.LittleEndian
	c, err := s.cursor(s.inodeTab, ref>>16, int(ref&0xffff), s.dirTab)
	if err != nil {
		return nil, err
	}
	h, err := c.read(16)
	if err != nil {
		return nil, err
	}
	typ := le.Uint16(h[0:2])
	n := &sqInode{SqNode: &SqNode{Path: path, Mode: le.Uint16(h[2:4]), MTime: le.Uint32(h[8:12]), Inode: le.Uint32(h[12:16])}}
	ui, gi := int(le.Uint16(h[4:6])), int(le.Uint16(h[6:8]))
	if ui >= len(s.ids) || gi >= len(s.ids) {
		return nil, fmt.Errorf("inode %d: uid/gid index %d/%d beyond the %d ids", n.Inode, ui, gi, len(s.ids))
	}
	n.UID, n.GID = s.ids[ui], s.ids[gi]
	switch typ {
	case 1:
		b, err := c.read(16)
		if err != nil {
			return nil, err
		}
		n.Kind = 'd'
		n.dirBlock = le.Uint32(b[0:4])
		n.NLink = le.Uint32(b[4:8])
		n.dirSize = uint32(le.Uint16(b[8:10]))
		n.dirOffset = le.Uint16(b[10:12])
	case 8:
		b, err := c.read(24)
		if err != nil {
			return nil, err
		}
		n.Kind, n.Ext = 'd', true
		n.NLink = le.Uint32(b[0:4])
		n.dirSize = le.Uint32(b[4:8])
		n.dirBlock = le.Uint32(b[8:12])
		n.dirOffset = le.Uint16(b[18:20])
	case 2, 9:
		var blocksStart, fileSize uint64
		var frag, fragOff uint32
		if typ == 2 {
			b, err := c.read(16)
			if err != nil {
				return nil, err
			}
			blocksStart = uint64(le.Uint32(b[0:4]))
			frag = le.Uint32(b[4:8])
			fragOff = le.Uint32(b[8:12])
			fileSize = uint64(le.Uint32(b[12:16]))
			n.NLink = 1
		} else {
			b, err := c.read(40)
			if err != nil {
				return nil, err
			}
			blocksStart = le.Uint64(b[0:8])
			fileSize = le.Uint64(b[8:16])
			n.NLink = le.Uint32(b[24:28])
			frag = le.Uint32(b[28:32])
			fragOff = le.Uint32(b[32:36])
			n.Ext = true
		}
		n.Kind = 'f'
		n.Size = int64(fileSize)
		if n.Size > s.limit {
			return nil, fmt.Errorf("inode %d: file size %d exceeds the reader's budget", n.Inode, n.Size)
		}
		s.limit -= n.Size
		bs := uint64(s.blockSize)
		nb := fileSize / bs
		if frag == 0xffffffff && fileSize%bs != 0 {
			nb++
		}
		n.Blocks = int(nb)
		n.Frag = frag != 0xffffffff
		sw, err := c.read(int(nb) * 4)
		if err != nil {
			return nil, err
		}
		data := make([]byte, 0, fileSize)
		off := blocksStart
		for i := 0; i < int(nb); i++ {
			w := le.Uint32(sw[i*4:])
			want := int(bs)
			if rem := fileSize - uint64(i)*bs; rem < bs {
				want = int(rem)
			}
			blk, err := s.dataBlock(off, w, want)
			if err != nil {
				return nil, fmt.Errorf("inode %d block %d: %w", n.Inode, i, err)
			}
			if len(blk) != want {
				return nil, fmt.Errorf("inode %d block %d holds %d bytes, %d expected", n.Inode, i, len(blk), want)
			}
			data = append(data, blk...)
			off += uint64(w & 0xffffff)
		}
		if n.Frag {
			tail := int(fileSize % bs)
			if fileSize < bs {
				tail = int(fileSize)
			}
			if tail > 0 {
				fb, err := s.fragment(frag)
				if err != nil {
					return nil, fmt.Errorf("inode %d: %w", n.Inode, err)
				}
				if int(fragOff)+tail > len(fb) {
					return nil, fmt.Errorf("inode %d: tail of %d bytes at offset %d lies outside fragment block %d of %d bytes", n.Inode, tail, fragOff, frag, len(fb))
				}
				data = append(data, fb[fragOff:int(fragOff)+tail]...)
			}
		}
		if uint64(len(data)) != fileSize {
			return nil, fmt.Errorf("inode %d: assembled %d bytes, file size %d", n.Inode, len(data), fileSize)
		}
		n.Data = data
	case 3, 10:
		b, err := c.read(8)
		if err != nil {
			return nil, err
		}
		n.Kind = 'l'
		n.NLink = le.Uint32(b[0:4])
		tl := le.Uint32(b[4:8])
		if tl > 65535 {
			return nil, fmt.Errorf("inode %d: symlink target of %d bytes", n.Inode, tl)
		}
		t, err := c.read(int(tl))
		if err != nil {
			return nil, err
		}
		n.Target = string(t)
		n.Size = int64(tl)
		n.Ext = typ == 10
	default:
		n.Kind = 'o'
	}
	return n, nil
}

func (s *sqReader) walk(img *SqImage, d *sqInode, prefix string, dirEnd uint64, depth int) error {
	le := binary.LittleEndian
	if depth > 64 {
		return fmt.Errorf("directory nesting deeper than 64 at %q", prefix)
	}
	if d.dirSize < 3 {
		return fmt.Errorf("directory %q has size field %d (< 3)", prefix, d.dirSize)
	}
	remaining := int(d.dirSize) - 3
	if remaining == 0 {
		return nil
	}
	c, err := s.cursor(s.dirTab, uint64(d.dirBlock), int(d.dirOffset), dirEnd)
	if err != nil {
		return fmt.Errorf("directory %q: %w", prefix, err)
	}
	for remaining > 0 {
		h, err := c.read(12)
		if err != nil {
			return fmt.Errorf("directory %q: %w", prefix, err)
		}
		remaining -= 12
		count := int(le.Uint32(h[0:4])) + 1
		inoStart := uint64(le.Uint32(h[4:8]))
		if count > 256 {
			return fmt.Errorf("directory %q: header with %d entries", prefix, count)
		}
		for i := 0; i < count; i++ {
			e, err := c.read(8)
			if err != nil {
				return fmt.Errorf("directory %q: %w", prefix, err)
			}
			off := uint64(le.Uint16(e[0:2]))
			nl := int(le.Uint16(e[6:8])) + 1
			nb, err := c.read(nl)
			if err != nil {
				return fmt.Errorf("directory %q: %w", prefix, err)
			}
			remaining -= 8 + nl
			name := string(nb)
			p := name
			if prefix != "" {
				p = prefix + "/" + name
			}
			if _, dup := img.Nodes[p]; dup {
				return fmt.Errorf("directory %q lists %q twice", prefix, name)
			}
			n, err := s.inode(inoStart<<16|off, p)
			if err != nil {
				return fmt.Errorf("%q: %w", p, err)
			}
			et := le.Uint16(e[4:6])
			wantT := map[byte]uint16{'d': 1, 'f': 2, 'l': 3}[n.Kind]
			if wantT != 0 && et != wantT {
				return fmt.Errorf("%q: directory entry type %d, inode kind %c", p, et, n.Kind)
			}
			img.Nodes[p] = n.SqNode
			if n.Kind == 'd' {
				if err := s.walk(img, n, p, dirEnd, depth+1); err != nil {
					return err
				}
			}
		}
	}
	if remaining != 0 {
		return fmt.Errorf("directory %q: listing overruns its size field by %d bytes", prefix, -remaining)
	}
	return nil
}
