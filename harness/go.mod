module verifharness

go 1.25.0

require (
	github.com/diskfs/go-diskfs v0.0.0
	github.com/klauspost/compress v1.18.5
	github.com/pierrec/lz4/v4 v4.1.26
	github.com/sirupsen/logrus v1.9.4
	github.com/ulikunitz/xz v0.5.15
	pgregory.net/rapid v1.3.0
)

require (
	github.com/anchore/go-lzo v0.1.0 // indirect
	github.com/djherbis/times v1.6.0 // indirect
	github.com/elliotwutingfeng/asciiset v0.0.0-20260129054604-cfde2086bc57 // indirect
	github.com/google/uuid v1.6.0 // indirect
	github.com/pkg/xattr v0.4.12 // indirect
	golang.org/x/sys v0.43.0 // indirect
)

replace github.com/diskfs/go-diskfs => /repo
