// Package hx is the glue between rapid, the property code and the ./check
// driver: case recording, statistics, replay files, journal, watchdog.
package hx

import (
	"syscall"
	"strconv"
	"crypto/sha1"
	"encoding/hex"
	"encoding/json"
	"fmt"
	"os"
	"path/filepath"
	"reflect"
	"runtime/debug"
	"sort"
	"strings"
	"sync"
	"sync/atomic"
	"testing"
	"time"

	"pgregory.net/rapid"
)

// Result is what executing one case against the library produced.
type Result struct {
	Viol       string   // non-empty: the property was violated; human-readable reason
	Sig        string   // short stable signature of the violation (oracle id + features)
	Nontrivial bool     // the case satisfied the property's non-triviality rule
	Classes    []string // labels for the class histogram
	Discard    bool     // the library refused the case (outside the accepted domain)
	Steps      int      // operations executed
	Info       []string // informational notes (not violations)
	Sub        int      // number of sub-evaluations (crash states, corruptions) if the case is a family
	SubNT      int      // of which non-trivial
	ReplayCase any      // if set, written to the replay file instead of the generated case (pins the failing family member)
}

func (r *Result) Class(c string)               { r.Classes = append(r.Classes, c) }
func (r *Result) Fail(sig, f string, a ...any) { r.Sig = sig; r.Viol = fmt.Sprintf(f, a...) }
func (r *Result) Note(f string, a ...any)      { r.Info = append(r.Info, fmt.Sprintf(f, a...)) }
func (r *Result) Failed() bool                 { return r.Viol != "" }
func (r *Result) FailIf(c bool, s, f string, a ...any) bool {
	if c && r.Viol == "" {
		r.Fail(s, f, a...)
	}
	return c
}

// Spec binds a property id to its generator and executor.
type Spec struct {
	ID      string
	Gen     func(t *rapid.T) any
	Exec    func(c any) Result
	New     func() any // pointer to a fresh case value for JSON decoding
	Journal bool       // write the case to the journal before executing it
	Rule    string
}

var registry = map[string]*Spec{}

func Register(s *Spec)    { registry[s.ID] = s }
func Get(id string) *Spec { return registry[id] }

// ---- statistics ----

type Stats struct {
	Property    string            `json:"property"`
	Shard       string            `json:"shard"`
	Seed        uint64            `json:"seed"`
	Evaluations int               `json:"evaluations"`
	Cases       int               `json:"cases"`
	Steps       int               `json:"steps"`
	Discarded   int               `json:"discarded"`
	NTHashes    []string          `json:"nt_hashes"`
	NTOverflow  int               `json:"nt_overflow"`
	SubNT       int               `json:"sub_nontrivial"`
	Classes     map[string]int    `json:"classes"`
	Samples     []json.RawMessage `json:"samples"`
	Info        map[string]int    `json:"info"`
	Excluded    map[string]int    `json:"excluded"`
	Violations  []ViolRec         `json:"violations"`
	Rule        string            `json:"rule"`
	WallS       float64           `json:"wall_s"`
	Extra       map[string]any    `json:"extra,omitempty"`
}

type ViolRec struct {
	Sig    string `json:"sig"`
	Msg    string `json:"msg"`
	Replay string `json:"replay"`
	Known  string `json:"known,omitempty"`
}

var (
	mu      sync.Mutex
	st      = map[string]*Stats{}
	nt      = map[string]map[string]struct{}{}
	failed  = map[string]bool{}
	started = time.Now()
)

const maxHashes = 200000

func stats(id string) *Stats {
	s := st[id]
	if s == nil {
		s = &Stats{Property: id, Classes: map[string]int{}, Info: map[string]int{}, Excluded: map[string]int{}, Shard: os.Getenv("VERIF_SHARD"), Extra: map[string]any{}}
		st[id] = s
		nt[id] = map[string]struct{}{}
	}
	return s
}

// Excluded counts a generator-side exclusion caused by an active known finding.
func Excluded(id, kf string) {
	mu.Lock()
	stats(id).Excluded[kf]++
	mu.Unlock()
}

// SetExtra stores an additional measured value in the statistics.
func SetExtra(id, k string, v any) {
	mu.Lock()
	stats(id).Extra[k] = v
	mu.Unlock()
}

func AddExtra(id, k string, n int) {
	mu.Lock()
	s := stats(id)
	c, _ := s.Extra[k].(int)
	s.Extra[k] = c + n
	mu.Unlock()
}

func hashCase(b []byte) string {
	h := sha1.Sum(b)
	return hex.EncodeToString(h[:8])
}

func record(id string, c any, r *Result) {
	mu.Lock()
	defer mu.Unlock()
	if failed[id] {
		return // shrinking re-executions are not counted
	}
	s := stats(id)
	s.Cases++
	if r.Sub > 0 {
		s.Evaluations += r.Sub
	} else {
		s.Evaluations++
	}
	s.Steps += r.Steps
	s.SubNT += r.SubNT
	if r.Discard {
		s.Discarded++
	}
	for _, c := range r.Classes {
		s.Classes[c]++
	}
	for _, i := range r.Info {
		if len(s.Info) < 200 || s.Info[i] > 0 {
			s.Info[i]++
		}
	}
	if r.Nontrivial && !r.Discard {
		b, _ := json.Marshal(c)
		h := hashCase(b)
		set := nt[id]
		if _, ok := set[h]; !ok {
			if len(set) < maxHashes {
				set[h] = struct{}{}
			} else {
				s.NTOverflow++
			}
			// samples: the 1st, 10th, 100th, 1000th distinct non-trivial case
			n := len(set)
			if (n == 1 || n == 10 || n == 100 || n == 1000 || n == 5000) && len(b) < 20000 {
				s.Samples = append(s.Samples, json.RawMessage(b))
			}
		}
	}
}

// Flush writes statistics for every property touched to $VERIF_STATS.
func Flush() {
	path := os.Getenv("VERIF_STATS")
	if path == "" {
		return
	}
	if os.Getenv("VERIF_FUZZ") != "" {
		// a native fuzz campaign runs the target in several worker processes; each keeps its own file
		path = fmt.Sprintf("%s.%d", path, os.Getpid())
	}
	mu.Lock()
	defer mu.Unlock()
	var all []*Stats
	ids := make([]string, 0, len(st))
	for id := range st {
		ids = append(ids, id)
	}
	sort.Strings(ids)
	for _, id := range ids {
		s := st[id]
		s.NTHashes = s.NTHashes[:0]
		for h := range nt[id] {
			s.NTHashes = append(s.NTHashes, h)
		}
		sort.Strings(s.NTHashes)
		s.WallS = time.Since(started).Seconds()
		if sp := registry[id]; sp != nil {
			s.Rule = sp.Rule
		}
		all = append(all, s)
	}
	b, _ := json.Marshal(all)
	_ = os.WriteFile(path, b, 0o644)
}

// ---- known findings ----

var activeKF = func() map[string]bool {
	m := map[string]bool{}
	for _, k := range strings.Split(os.Getenv("VERIF_KNOWN"), ",") {
		if k != "" {
			m[k] = true
		}
	}
	return m
}()

// Active reports whether the canonical replay of a known finding still fails
// on this tree (decided by the driver before the search starts).
func Active(kf string) bool { return activeKF[kf] }

// ---- replay files ----

type ReplayFile struct {
	Property string          `json:"property"`
	Sig      string          `json:"sig"`
	Message  string          `json:"message"`
	Case     json.RawMessage `json:"case"`
}

func replayDir() string {
	d := os.Getenv("VERIF_REPLAY_DIR")
	if d == "" {
		d = os.TempDir()
	}
	return d
}

func writeReplay(id string, c any, r *Result) string {
	if r.ReplayCase != nil {
		c = r.ReplayCase
	}
	b, err := json.Marshal(c)
	if err != nil {
		b = []byte(fmt.Sprintf("%q", fmt.Sprintf("unmarshalable case: %v", err)))
	}
	rf := ReplayFile{Property: id, Sig: r.Sig, Message: r.Viol, Case: b}
	out, _ := json.MarshalIndent(rf, "", " ")
	name := fmt.Sprintf("%s-shard%s.json", id, os.Getenv("VERIF_SHARD"))
	if os.Getenv("VERIF_FUZZ") != "" {
		name = fmt.Sprintf("%s-fuzz-%d.json", id, os.Getpid())
	}
	p := filepath.Join(replayDir(), name)
	_ = os.WriteFile(p, out, 0o644)
	return p
}

func journal(id string, c any) {
	p := os.Getenv("VERIF_JOURNAL")
	if p == "" {
		return
	}
	b, _ := json.Marshal(c)
	rf := ReplayFile{Property: id, Sig: "process-died", Message: "the process died or hung while executing this case", Case: b}
	out, _ := json.Marshal(rf)
	_ = os.WriteFile(p, out, 0o644)
}

// JournalSub lets an executor that enumerates a family journal the member it is about to run.
func JournalSub(id string, c any) { journal(id, c) }

func clearJournal() {
	if p := os.Getenv("VERIF_JOURNAL"); p != "" {
		_ = os.Remove(p)
	}
}

// RunProp is the body of TestCNN: generated search with rapid.
func RunProp(t *testing.T, id string) {
	sp := registry[id]
	if sp == nil {
		t.Fatalf("no spec registered for %s", id)
	}
	rapid.Check(t, func(rt *rapid.T) {
		c := sp.Gen(rt)
		if sp.Journal {
			journal(id, c)
		}
		r := execSteady(sp, c)
		if sp.Journal {
			clearJournal()
		}
		record(id, c, &r)
		if r.Viol != "" {
			p := writeReplay(id, c, &r)
			mu.Lock()
			failed[id] = true
			s := stats(id)
			// keep only the latest (most shrunk) record
			s.Violations = []ViolRec{{Sig: r.Sig, Msg: r.Viol, Replay: p}}
			mu.Unlock()
			Flush()
			rt.Fatalf("VIOLATION %s [%s]: %s", id, r.Sig, r.Viol)
		}
	})
}

var lastFuzzFlush time.Time

// RunFuzz is the body of a native fuzz target: execute one decoded case, count it, and on a violation
// write the JSON replay (the engine minimises by calling the target again; the last replay written is
// the smallest) and fail the test. Statistics are flushed every few seconds because workers are stopped
// by the coordinator without notice.
func RunFuzz(t *testing.T, id string, c any) {
	sp := registry[id]
	if sp.Journal {
		journal(id, c)
	}
	r := execSteady(sp, c)
	if sp.Journal {
		clearJournal()
	}
	mu.Lock()
	wasFailed := failed[id]
	mu.Unlock()
	if !wasFailed {
		record(id, c, &r)
	}
	if r.Viol != "" {
		p := writeReplay(id, c, &r)
		mu.Lock()
		failed[id] = true
		stats(id).Violations = []ViolRec{{Sig: r.Sig, Msg: r.Viol, Replay: p}}
		mu.Unlock()
		Flush()
		t.Fatalf("VIOLATION %s [%s]: %s", id, r.Sig, r.Viol)
	}
	if time.Since(lastFuzzFlush) > 3*time.Second {
		lastFuzzFlush = time.Now()
		Flush()
	}
}

// ReportViolation records a violation found outside rapid.Check (no shrinking) and fails the test.
func ReportViolation(t *testing.T, id string, c any, r *Result) {
	p := writeReplay(id, c, r)
	mu.Lock()
	failed[id] = true
	stats(id).Violations = []ViolRec{{Sig: r.Sig, Msg: r.Viol, Replay: p}}
	mu.Unlock()
	Flush()
	t.Fatalf("VIOLATION %s [%s]: %s", id, r.Sig, r.Viol)
}

// RunEnum executes an explicit list/stream of cases (bounded-exhaustive mode).
func RunEnum(t *testing.T, id string, next func() (any, bool)) {
	sp := registry[id]
	for {
		c, ok := next()
		if !ok {
			return
		}
		if sp.Journal {
			journal(id, c)
		}
		r := execSteady(sp, c)
		if sp.Journal {
			clearJournal()
		}
		record(id, c, &r)
		if r.Viol != "" {
			p := writeReplay(id, c, &r)
			mu.Lock()
			failed[id] = true
			stats(id).Violations = []ViolRec{{Sig: r.Sig, Msg: r.Viol, Replay: p}}
			mu.Unlock()
			Flush()
			t.Fatalf("VIOLATION %s [%s]: %s", id, r.Sig, r.Viol)
		}
	}
}

// RunReplay executes the case stored in $VERIF_REPLAY with the property's
// executor, bypassing every generator. It prints a machine-readable line.
func RunReplay(t *testing.T) {
	p := os.Getenv("VERIF_REPLAY")
	if p == "" {
		t.Skip("VERIF_REPLAY not set")
	}
	b, err := os.ReadFile(p)
	if err != nil {
		t.Fatalf("read replay: %v", err)
	}
	var rf ReplayFile
	if err := json.Unmarshal(b, &rf); err != nil {
		t.Fatalf("parse replay: %v", err)
	}
	sp := registry[rf.Property]
	if sp == nil {
		t.Fatalf("no spec for %q", rf.Property)
	}
	c := sp.New()
	if err := json.Unmarshal(rf.Case, c); err != nil {
		t.Fatalf("parse case: %v", err)
	}
	if sp.Journal {
		journal(rf.Property, c)
	}
	r := execSteady(sp, deref(c))
	if sp.Journal {
		clearJournal()
	}
	if r.Viol != "" {
		fmt.Printf("REPLAY-RESULT property=%s outcome=violation sig=%s msg=%s\n", rf.Property, r.Sig, oneLine(r.Viol))
		t.Fatalf("VIOLATION %s [%s]: %s", rf.Property, r.Sig, r.Viol)
	}
	fmt.Printf("REPLAY-RESULT property=%s outcome=pass\n", rf.Property)
}

func oneLine(s string) string {
	s = strings.ReplaceAll(s, "\n", " | ")
	if len(s) > 600 {
		s = s[:600] + "..."
	}
	return s
}

// deref turns the pointer returned by Spec.New into the value Exec expects.
func deref(p any) any { return reflect.ValueOf(p).Elem().Interface() }

// ---- running library code safely ----

// Safe runs f and converts a panic into (true, stack).
func Safe(f func()) (panicked bool, val any, stack string) {
	defer func() {
		if r := recover(); r != nil {
			panicked = true
			val = r
			stack = trimStack(string(debug.Stack()))
		}
	}()
	f()
	return
}

func trimStack(s string) string {
	lines := strings.Split(s, "\n")
	var keep []string
	for _, l := range lines {
		if strings.Contains(l, "go-diskfs") || strings.Contains(l, "/repo/") || strings.HasPrefix(l, "panic") {
			keep = append(keep, strings.TrimSpace(l))
		}
		if len(keep) >= 12 {
			break
		}
	}
	return strings.Join(keep, " <- ")
}

var (
	timeouts  atomic.Int64 // time limits hit so far in this process
	timeScale atomic.Int64 // multiplier applied to every limit (1, or 5 while a case is re-examined)
)

func init() { timeScale.Store(1) }

// execSteady runs a case; when the result is a violation and a time limit was hit on the way, the case is
// executed once more with every limit five times as long. A limit hit on a busy machine is not a verdict:
// only what the second, patient execution reports counts (a case that then passes is classed slow-first-attempt).
func execSteady(sp *Spec, c any) Result {
	before := timeouts.Load()
	r := sp.Exec(c)
	if r.Viol == "" || timeouts.Load() == before {
		return r
	}
	timeScale.Store(5)
	r2 := sp.Exec(c)
	timeScale.Store(1)
	if r2.Viol == "" {
		r2.Class("slow-first-attempt")
	}
	return r2
}

// WithTimeout runs f in a goroutine; returns false if it did not finish in d.
// The goroutine is leaked on timeout (it cannot be killed).
func WithTimeout(d time.Duration, f func()) (finished bool) {
	d *= time.Duration(timeScale.Load())
	defer func() {
		if !finished {
			timeouts.Add(1)
		}
	}()
	done := make(chan struct{})
	go func() {
		defer close(done)
		f()
	}()
	tm := time.NewTimer(d)
	defer tm.Stop()
	select {
	case <-done:
		return true
	case <-tm.C:
		return false
	}
}

// Main is called from TestMain.
func Main(m *testing.M) {
	// rapid replays testdata/rapid first; never wanted here.
	_ = os.RemoveAll("testdata/rapid")
	// a native fuzz campaign: the coordinator maps shared memory for every worker and must not run under
	// the address-space cap; each worker puts itself under it
	if kb, err := strconv.ParseUint(os.Getenv("VERIF_WORKER_MEM_KB"), 10, 64); err == nil && kb > 0 {
		for _, a := range os.Args {
			if strings.HasPrefix(a, "-test.fuzzworker") {
				lim := syscall.Rlimit{Cur: kb * 1024, Max: kb * 1024}
				_ = syscall.Setrlimit(syscall.RLIMIT_AS, &lim)
			}
		}
	}
	code := m.Run()
	Flush()
	os.Exit(code)
}

// Tier returns "quick" or "thorough".
func Tier() string {
	if os.Getenv("VERIF_TIER") == "thorough" {
		return "thorough"
	}
	return "quick"
}

func Thorough() bool { return Tier() == "thorough" }
