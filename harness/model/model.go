// Package model is the in-memory reference tree the filesystem checks compare
// against: directories, files (byte strings) and symlinks, with pluggable name
// folding (exact for ext4/squashfs, ASCII case-insensitive for FAT).
package model

import (
	"errors"
	"sort"
	"strings"
)

type Node struct {
	Name     string // as created (case preserved)
	Dir      bool
	Link     bool
	Target   string
	Data     []byte
	Children map[string]*Node // key = folded name
	// attributes (used by C04/C19)
	Mode  uint32 // permission bits incl. suid/sgid/sticky; 0 = never set
	UID   int
	GID   int
	Atime int64
	Mtime int64
	Ctime int64 // creation time in the library's Chtimes vocabulary
	// FAT attribute flags
	ReadOnly, Hidden, System, Archive bool
	HasMeta                           bool
}

type Tree struct {
	Root *Node
	Fold func(string) string
}

func Exact(s string) string { return s }

// FoldASCII lower-cases ASCII letters only... FAT compares with Unicode simple
// folding (strings.EqualFold); generated names never rely on the difference.
func FoldFAT(s string) string { return strings.ToLower(s) }

func New(fold func(string) string) *Tree {
	return &Tree{Root: &Node{Dir: true, Children: map[string]*Node{}}, Fold: fold}
}

var (
	ErrNotFound = errors.New("model: not found")
	ErrExists   = errors.New("model: exists")
	ErrNotDir   = errors.New("model: not a directory")
	ErrIsDir    = errors.New("model: is a directory")
	ErrNotEmpty = errors.New("model: directory not empty")
)

func split(p string) []string {
	p = strings.Trim(p, "/")
	if p == "" || p == "." {
		return nil
	}
	return strings.Split(p, "/")
}

func (t *Tree) Lookup(p string) *Node {
	n := t.Root
	for _, c := range split(p) {
		if !n.Dir {
			return nil
		}
		n = n.Children[t.Fold(c)]
		if n == nil {
			return nil
		}
	}
	return n
}

func (t *Tree) parentOf(p string) (*Node, string) {
	parts := split(p)
	if len(parts) == 0 {
		return nil, ""
	}
	n := t.Root
	for _, c := range parts[:len(parts)-1] {
		if !n.Dir {
			return nil, ""
		}
		n = n.Children[t.Fold(c)]
		if n == nil {
			return nil, ""
		}
	}
	if !n.Dir {
		return nil, ""
	}
	return n, parts[len(parts)-1]
}

// Mkdir has mkdir -p semantics.
func (t *Tree) Mkdir(p string) error {
	n := t.Root
	for _, c := range split(p) {
		ch := n.Children[t.Fold(c)]
		if ch == nil {
			ch = &Node{Name: c, Dir: true, Children: map[string]*Node{}}
			n.Children[t.Fold(c)] = ch
		} else if !ch.Dir {
			return ErrNotDir
		}
		n = ch
	}
	return nil
}

// Create makes an empty file (or returns the existing one).
func (t *Tree) Create(p string) (*Node, error) {
	par, name := t.parentOf(p)
	if par == nil {
		return nil, ErrNotFound
	}
	if n := par.Children[t.Fold(name)]; n != nil {
		if n.Dir {
			return nil, ErrIsDir
		}
		return n, nil
	}
	n := &Node{Name: name}
	par.Children[t.Fold(name)] = n
	return n, nil
}

func (t *Tree) Symlink(target, p string) error {
	par, name := t.parentOf(p)
	if par == nil {
		return ErrNotFound
	}
	if par.Children[t.Fold(name)] != nil {
		return ErrExists
	}
	par.Children[t.Fold(name)] = &Node{Name: name, Link: true, Target: target}
	return nil
}

// WriteAt writes data at off, zero-filling any gap.
func (n *Node) WriteAt(off int64, data []byte) {
	if len(data) == 0 {
		return // a zero-length write never extends a file
	}
	end := off + int64(len(data))
	if end > int64(len(n.Data)) {
		if end <= int64(cap(n.Data)) {
			old := len(n.Data)
			n.Data = n.Data[:end]
			for i := old; int64(i) < off && i < len(n.Data); i++ {
				n.Data[i] = 0
			}
		} else {
			nd := make([]byte, end, end+end/2+64)
			copy(nd, n.Data)
			n.Data = nd
		}
	}
	copy(n.Data[off:], data)
}

func (t *Tree) Remove(p string) error {
	par, name := t.parentOf(p)
	if par == nil {
		return ErrNotFound
	}
	n := par.Children[t.Fold(name)]
	if n == nil {
		return ErrNotFound
	}
	if n.Dir && len(n.Children) > 0 {
		return ErrNotEmpty
	}
	delete(par.Children, t.Fold(name))
	return nil
}

// Rename within one directory; replaces an existing non-directory target.
func (t *Tree) Rename(oldp, newp string) error {
	par, oname := t.parentOf(oldp)
	par2, nname := t.parentOf(newp)
	if par == nil || par != par2 {
		return ErrNotFound
	}
	n := par.Children[t.Fold(oname)]
	if n == nil {
		return ErrNotFound
	}
	if ex := par.Children[t.Fold(nname)]; ex != nil && ex != n && ex.Dir {
		return ErrIsDir
	}
	delete(par.Children, t.Fold(oname))
	n.Name = nname
	par.Children[t.Fold(nname)] = n
	return nil
}

// Drop removes a node whatever it is (used when re-synchronising after an error).
func (t *Tree) Drop(p string) {
	par, name := t.parentOf(p)
	if par != nil {
		delete(par.Children, t.Fold(name))
	}
}

// Walk visits every node except the root, parents first, in sorted order.
func (t *Tree) Walk(fn func(path string, n *Node)) {
	var rec func(prefix string, n *Node)
	rec = func(prefix string, n *Node) {
		keys := make([]string, 0, len(n.Children))
		for k := range n.Children {
			keys = append(keys, k)
		}
		sort.Strings(keys)
		for _, k := range keys {
			ch := n.Children[k]
			p := ch.Name
			if prefix != "" {
				p = prefix + "/" + ch.Name
			}
			fn(p, ch)
			if ch.Dir {
				rec(p, ch)
			}
		}
	}
	rec("", t.Root)
}

// Dirs lists all directory paths including "" for the root.
func (t *Tree) Dirs() []string {
	out := []string{""}
	t.Walk(func(p string, n *Node) {
		if n.Dir {
			out = append(out, p)
		}
	})
	return out
}

func (t *Tree) Files() []string {
	var out []string
	t.Walk(func(p string, n *Node) {
		if !n.Dir && !n.Link {
			out = append(out, p)
		}
	})
	return out
}

func (t *Tree) All() []string {
	var out []string
	t.Walk(func(p string, n *Node) { out = append(out, p) })
	return out
}

// Count of nodes (excluding root).
func (t *Tree) Count() int {
	c := 0
	t.Walk(func(string, *Node) { c++ })
	return c
}

// ChildNames returns the sorted names (as created) of a directory's entries.
func (n *Node) ChildNames() []string {
	out := make([]string, 0, len(n.Children))
	for _, c := range n.Children {
		out = append(out, c.Name)
	}
	sort.Strings(out)
	return out
}

func Join(dir, name string) string {
	if dir == "" {
		return name
	}
	return dir + "/" + name
}
