// Package mk builds filesystem images through the library's public API, and
// holds the content generator shared by all checks.
package mk

import (
	"fmt"
	"os"
	"path/filepath"
	"sort"
	"strings"
	"time"

	"github.com/diskfs/go-diskfs/backend"
	"github.com/diskfs/go-diskfs/filesystem"
	"github.com/diskfs/go-diskfs/filesystem/ext4"
	"github.com/diskfs/go-diskfs/filesystem/fat12"
	"github.com/diskfs/go-diskfs/filesystem/fat16"
	"github.com/diskfs/go-diskfs/filesystem/fat32"
	"github.com/diskfs/go-diskfs/filesystem/iso9660"
	"github.com/diskfs/go-diskfs/filesystem/squashfs"
)

// Content describes file bytes compactly so cases stay small in JSON.
type Content struct {
	Seed  uint32 `json:"seed"`
	Len   int    `json:"len"`
	Style int    `json:"style"` // 0 random, 1 zeros, 2 text, 3 random with zero runs
}

// Bytes materialises the content deterministically.
func (c Content) Bytes() []byte {
	b := make([]byte, c.Len)
	x := uint64(c.Seed)*0x9E3779B97F4A7C15 + 0xDEADBEEF
	next := func() uint64 {
		x ^= x << 13
		x ^= x >> 7
		x ^= x << 17
		return x
	}
	switch c.Style {
	case 1:
	case 2:
		words := []string{"alpha ", "beta ", "gamma\n", "delta ", "the quick brown fox ", "0123456789 "}
		i := 0
		for i < len(b) {
			w := words[next()%uint64(len(words))]
			i += copy(b[i:], w)
		}
	case 3:
		i := 0
		for i < len(b) {
			run := int(next()%5000) + 1
			zero := next()%2 == 0
			for j := 0; j < run && i < len(b); j++ {
				if !zero {
					b[i] = byte(next()>>32) | 1
				}
				i++
			}
		}
	default:
		i := 0
		for i+8 <= len(b) {
			v := next()
			b[i], b[i+1], b[i+2], b[i+3] = byte(v), byte(v>>8), byte(v>>16), byte(v>>24)
			b[i+4], b[i+5], b[i+6], b[i+7] = byte(v>>32), byte(v>>40), byte(v>>48), byte(v>>56)
			i += 8
		}
		for ; i < len(b); i++ {
			b[i] = byte(next() >> 24)
		}
		// never all-zero and position-revealing in the first bytes
		if len(b) > 0 && b[0] == 0 {
			b[0] = 0x5A
		}
	}
	return b
}

// Kinds of tree entries.
const (
	KFile = 0
	KDir  = 1
	KLink = 2
)

// Entry is one node of a source tree (workspace trees for iso9660/squashfs,
// host trees for mke2fs -d, model trees for copy checks).
type Entry struct {
	Path   string  `json:"path"` // slash separated, no leading slash
	Kind   int     `json:"kind"`
	Data   Content `json:"data,omitempty"`
	Target string  `json:"target,omitempty"`
	Mode   uint32  `json:"mode,omitempty"` // permission bits incl. setuid/setgid/sticky (0 = default)
	UID    int     `json:"uid,omitempty"`
	GID    int     `json:"gid,omitempty"`
	Mtime  int64   `json:"mtime,omitempty"` // unix seconds, 0 = leave
}

// SortEntries orders parents before children.
func SortEntries(es []Entry) {
	sort.SliceStable(es, func(i, j int) bool {
		di, dj := strings.Count(es[i].Path, "/"), strings.Count(es[j].Path, "/")
		if di != dj {
			return di < dj
		}
		return es[i].Path < es[j].Path
	})
}

// Materialize writes the tree below root on the host filesystem.
func Materialize(root string, es []Entry) error {
	es = append([]Entry(nil), es...)
	SortEntries(es)
	for _, e := range es {
		p := filepath.Join(root, filepath.FromSlash(e.Path))
		if err := os.MkdirAll(filepath.Dir(p), 0o755); err != nil {
			return err
		}
		switch e.Kind {
		case KDir:
			if err := os.MkdirAll(p, 0o755); err != nil {
				return err
			}
		case KFile:
			if err := os.WriteFile(p, e.Data.Bytes(), 0o644); err != nil {
				return err
			}
		case KLink:
			if err := os.Symlink(e.Target, p); err != nil {
				return err
			}
		}
	}
	// metadata after contents, children before parents (mtime of dirs)
	for i := len(es) - 1; i >= 0; i-- {
		e := es[i]
		p := filepath.Join(root, filepath.FromSlash(e.Path))
		if e.UID != 0 || e.GID != 0 {
			if err := os.Lchown(p, e.UID, e.GID); err != nil {
				return err
			}
		}
		if e.Mode != 0 && e.Kind != KLink {
			m := os.FileMode(e.Mode & 0o777)
			if e.Mode&0o4000 != 0 {
				m |= os.ModeSetuid
			}
			if e.Mode&0o2000 != 0 {
				m |= os.ModeSetgid
			}
			if e.Mode&0o1000 != 0 {
				m |= os.ModeSticky
			}
			if err := os.Chmod(p, m); err != nil {
				return err
			}
		}
		if e.Mtime != 0 && e.Kind != KLink {
			t := time.Unix(e.Mtime, 0)
			if err := os.Chtimes(p, t, t); err != nil {
				return err
			}
		}
	}
	return nil
}

// ---- FAT ----

func CreateFAT(kind string, b backend.Storage, size, start, blocksize int64, label string, repro bool) (filesystem.FileSystem, error) {
	switch kind {
	case "fat12":
		return fat12.Create(b, size, start, blocksize, label, repro)
	case "fat16":
		return fat16.Create(b, size, start, blocksize, label, repro)
	case "fat32":
		return fat32.Create(b, size, start, blocksize, label, repro)
	}
	return nil, fmt.Errorf("unknown fat kind %q", kind)
}

func ReadFAT(kind string, b backend.Storage, size, start, blocksize int64) (filesystem.FileSystem, error) {
	switch kind {
	case "fat12":
		return fat12.Read(b, size, start, blocksize)
	case "fat16":
		return fat16.Read(b, size, start, blocksize)
	case "fat32":
		return fat32.Read(b, size, start, blocksize)
	}
	return nil, fmt.Errorf("unknown fat kind %q", kind)
}

// ---- squashfs ----

// SqOpts is the JSON-able form of squashfs.FinalizeOptions.
type SqOpts struct {
	Comp          string `json:"comp"` // "", none, gzip, xz, lz4, zstd
	Level         int    `json:"level,omitempty"` // gzip compression level (0 = zlib "no compression": every block is then stored raw)
	NoFragments   bool   `json:"nofrag,omitempty"`
	NoCompInodes  bool   `json:"nci,omitempty"`
	NoCompData    bool   `json:"ncd,omitempty"`
	NoCompFrags   bool   `json:"ncf,omitempty"`
	NoPad         bool   `json:"nopad,omitempty"`
	NonSparse     bool   `json:"nonsparse,omitempty"`
	NonExportable bool   `json:"nonexp,omitempty"`
}

func (o SqOpts) Options() squashfs.FinalizeOptions {
	fo := squashfs.FinalizeOptions{
		NoFragments: o.NoFragments, NoCompressInodes: o.NoCompInodes, NoCompressData: o.NoCompData,
		NoCompressFragments: o.NoCompFrags, NoPad: o.NoPad, NonSparse: o.NonSparse, NonExportable: o.NonExportable,
	}
	switch o.Comp {
	case "gzip":
		fo.Compression = &squashfs.CompressorGzip{CompressionLevel: uint32(o.Level)}
	case "xz":
		fo.Compression = &squashfs.CompressorXz{}
	case "lz4":
		fo.Compression = &squashfs.CompressorLz4{}
	case "zstd":
		fo.Compression = &squashfs.CompressorZstd{}
	case "none":
		fo.Compression = nil
	}
	return fo
}

// BuildSquashfs creates, populates (host workspace) and finalizes.
func BuildSquashfs(b backend.Storage, size, start, blocksize int64, tree []Entry, o SqOpts) error {
	fs, err := squashfs.Create(b, size, start, blocksize)
	if err != nil {
		return fmt.Errorf("create: %w", err)
	}
	defer fs.Close()
	if err := Materialize(fs.Workspace(), tree); err != nil {
		return fmt.Errorf("materialize: %w", err)
	}
	if err := fs.Finalize(o.Options()); err != nil {
		return fmt.Errorf("finalize: %w", err)
	}
	return nil
}

// ---- iso9660 ----

type IsoOpts struct {
	RockRidge bool   `json:"rr,omitempty"`
	Joliet    bool   `json:"joliet,omitempty"`
	Deep      bool   `json:"deep,omitempty"`
	VolID     string `json:"volid,omitempty"`
}

func (o IsoOpts) Options() iso9660.FinalizeOptions {
	return iso9660.FinalizeOptions{RockRidge: o.RockRidge, Joliet: o.Joliet, DeepDirectories: o.Deep, VolumeIdentifier: o.VolID}
}

// BuildISO creates with a private workspace directory, populates and finalizes.
func BuildISO(b backend.Storage, size, start, blocksize int64, tree []Entry, o IsoOpts) error {
	ws, err := os.MkdirTemp("", "verif_iso_ws")
	if err != nil {
		return err
	}
	defer os.RemoveAll(ws)
	if err := Materialize(ws, tree); err != nil {
		return fmt.Errorf("materialize: %w", err)
	}
	fs, err := iso9660.Create(b, size, start, blocksize, ws)
	if err != nil {
		return fmt.Errorf("create: %w", err)
	}
	if err := fs.Finalize(o.Options()); err != nil {
		return fmt.Errorf("finalize: %w", err)
	}
	return nil
}

// ---- ext4 ----

// E4Opts is the JSON-able form of the ext4.Params the checks vary.
type E4Opts struct {
	SectorsPerBlock uint8  `json:"spb,omitempty"`
	BlocksPerGroup  uint32 `json:"bpg,omitempty"`
	InodeRatio      int64  `json:"iratio,omitempty"`
	InodeCount      uint32 `json:"icount,omitempty"`
	SparseSuper     uint8  `json:"sparse,omitempty"`
	LogFlex         int    `json:"logflex,omitempty"`
	Label           string `json:"label,omitempty"`
	// feature toggles: nil = default
	Journal   *bool `json:"journal,omitempty"`
	MetaCsum  *bool `json:"metacsum,omitempty"`
	Bit64     *bool `json:"bit64,omitempty"`
	FlexBG    *bool `json:"flexbg,omitempty"`
	HugeFile  *bool `json:"hugefile,omitempty"`
	DirIndex  *bool `json:"dirindex,omitempty"`
	ResizeIno *bool `json:"resize,omitempty"`
	GdtCsum   *bool `json:"gdtcsum,omitempty"`
}

func (o E4Opts) Params() *ext4.Params {
	p := &ext4.Params{
		SectorsPerBlock: o.SectorsPerBlock, BlocksPerGroup: o.BlocksPerGroup, InodeRatio: o.InodeRatio,
		InodeCount: o.InodeCount, SparseSuperVersion: o.SparseSuper, LogFlexBlockGroups: o.LogFlex, VolumeName: o.Label,
	}
	add := func(v *bool, f func(bool) ext4.FeatureOpt) {
		if v != nil {
			p.Features = append(p.Features, f(*v))
		}
	}
	add(o.Journal, ext4.WithFeatureHasJournal)
	add(o.MetaCsum, ext4.WithFeatureMetadataChecksums)
	add(o.Bit64, ext4.WithFeatureFS64Bit)
	add(o.FlexBG, ext4.WithFeatureFlexBlockGroups)
	add(o.HugeFile, ext4.WithFeatureHugeFile)
	add(o.DirIndex, ext4.WithFeatureDirectoryIndices)
	add(o.ResizeIno, ext4.WithFeatureReservedGDTBlocksForExpansion)
	add(o.GdtCsum, ext4.WithFeatureGDTChecksum)
	return p
}

func CreateExt4(b backend.Storage, size, start int64, o E4Opts) (*ext4.FileSystem, error) {
	return ext4.Create(b, size, start, 512, o.Params())
}
