// Package dev is the harness's instrumented sparse block device. It implements
// backend.Storage (and backend.WritableFile) entirely in memory so a check can
// observe and control every byte the library reads, writes or syncs, without
// any hook in the library.
package dev

import (
	"crypto/sha256"
	"errors"
	"fmt"
	"io"
	"io/fs"
	"os"
	"runtime"
	"sort"
	"sync"
	"time"

	"github.com/diskfs/go-diskfs/backend"
)

const pageBits = 16
const pageSize = 1 << pageBits

// WriteRec is one WriteAt that reached the device.
type WriteRec struct {
	Seq   int
	Off   int64
	Len   int
	Epoch int    // sync epoch: number of Sync() calls before this write
	Data  []byte // copy of the bytes, only if KeepData
}

// Interval is a half-open byte range [Lo, Hi).
type Interval struct{ Lo, Hi int64 }

// Mode of write refusal.
type ROMode int

const (
	RW         ROMode = iota
	ROWritable        // Writable() returns backend.ErrIncorrectOpenMode
	ROHardFail        // Writable() succeeds but WriteAt fails (like an O_RDONLY *os.File)
)

// Device is a sparse in-memory device of a declared size.
type Device struct {
	mu       sync.Mutex
	size     int64
	pages    map[int64]*[pageSize]byte
	patterns []Interval // ranges whose background is Pat(off) instead of zero
	pos      int64

	Mode     ROMode
	KeepData bool
	LogReads bool

	writes    []WriteRec
	nWrites   int
	epoch     int
	syncs     int
	reads     []Interval
	nReads    int
	allowed   []Interval // nil: everything allowed
	guardOn   bool
	escapes   []WriteRec
	roWrites  int // WriteAt calls that arrived while Mode != RW
	yieldPlan map[int]int
	closed    int
	// MaxLog bounds the number of retained write records (counts keep going).
	MaxLog int
}

// New returns a zero-filled device of the given size.
func New(size int64) *Device {
	return &Device{size: size, pages: map[int64]*[pageSize]byte{}, MaxLog: 1 << 20}
}

// Pat is the position-dependent guard pattern (never zero).
func Pat(off int64) byte {
	x := uint64(off)*0x9E3779B97F4A7C15 + 0x1234567
	b := byte(x >> 56)
	if b == 0 {
		b = 0xA5
	}
	return b
}

// AddPattern makes the background of [lo,hi) the guard pattern. Must be called
// before anything is written there.
func (d *Device) AddPattern(lo, hi int64) {
	if lo < 0 {
		lo = 0
	}
	if hi > d.size {
		hi = d.size
	}
	if lo >= hi {
		return
	}
	d.mu.Lock()
	defer d.mu.Unlock()
	d.patterns = append(d.patterns, Interval{lo, hi})
}

func (d *Device) bgByte(off int64) byte {
	for _, p := range d.patterns {
		if off >= p.Lo && off < p.Hi {
			return Pat(off)
		}
	}
	return 0
}

func (d *Device) bgFill(buf []byte, off int64) {
	if len(d.patterns) == 0 {
		for i := range buf {
			buf[i] = 0
		}
		return
	}
	end := off + int64(len(buf))
	for i := range buf {
		buf[i] = 0
	}
	for _, p := range d.patterns {
		lo, hi := p.Lo, p.Hi
		if lo < off {
			lo = off
		}
		if hi > end {
			hi = end
		}
		for o := lo; o < hi; o++ {
			buf[o-off] = Pat(o)
		}
	}
}

func (d *Device) Size() int64 { return d.size }

// ---- fs.File / backend.Storage ----

type info struct{ size int64 }

func (i info) Name() string       { return "verifdev.img" }
func (i info) Size() int64        { return i.size }
func (i info) Mode() fs.FileMode  { return 0o644 }
func (i info) ModTime() time.Time { return time.Unix(0, 0) }
func (i info) IsDir() bool        { return false }
func (i info) Sys() any           { return nil }

func (d *Device) Stat() (fs.FileInfo, error) { return info{d.size}, nil }

func (d *Device) Close() error {
	d.mu.Lock()
	d.closed++
	d.mu.Unlock()
	return nil
}

func (d *Device) Sys() (*os.File, error) { return nil, backend.ErrNotSuitable }
func (d *Device) Path() string           { return "" }

func (d *Device) Writable() (backend.WritableFile, error) {
	if d.Mode == ROWritable {
		return nil, backend.ErrIncorrectOpenMode
	}
	return d, nil
}

func (d *Device) Read(p []byte) (int, error) {
	d.mu.Lock()
	pos := d.pos
	d.mu.Unlock()
	n, err := d.ReadAt(p, pos)
	d.mu.Lock()
	d.pos = pos + int64(n)
	d.mu.Unlock()
	return n, err
}

func (d *Device) Seek(offset int64, whence int) (int64, error) {
	d.mu.Lock()
	defer d.mu.Unlock()
	var np int64
	switch whence {
	case io.SeekStart:
		np = offset
	case io.SeekCurrent:
		np = d.pos + offset
	case io.SeekEnd:
		np = d.size + offset
	default:
		return 0, errors.New("dev: bad whence")
	}
	if np < 0 {
		return 0, errors.New("dev: negative position")
	}
	d.pos = np
	return np, nil
}

func (d *Device) ReadAt(p []byte, off int64) (int, error) {
	if off < 0 {
		return 0, errors.New("dev: negative offset")
	}
	d.mu.Lock()
	d.nReads++
	k := d.nReads
	y := 0
	if d.yieldPlan != nil {
		y = d.yieldPlan[k]
	}
	if d.LogReads && len(p) > 0 && off < d.size {
		hi := off + int64(len(p))
		if hi > d.size {
			hi = d.size
		}
		d.reads = append(d.reads, Interval{off, hi})
	}
	n, err := d.readLocked(p, off)
	d.mu.Unlock()
	switch {
	case y == 1:
		runtime.Gosched()
	case y > 1:
		time.Sleep(time.Duration(y) * time.Microsecond)
	}
	return n, err
}

func (d *Device) readLocked(p []byte, off int64) (int, error) {
	if off >= d.size {
		return 0, io.EOF
	}
	n := len(p)
	var err error
	if off+int64(n) > d.size {
		n = int(d.size - off)
		err = io.EOF
	}
	done := 0
	for done < n {
		o := off + int64(done)
		pi := o >> pageBits
		po := int(o & (pageSize - 1))
		c := pageSize - po
		if c > n-done {
			c = n - done
		}
		if pg, ok := d.pages[pi]; ok {
			copy(p[done:done+c], pg[po:po+c])
		} else {
			d.bgFill(p[done:done+c], o)
		}
		done += c
	}
	return n, err
}

var ErrReadOnlyDevice = errors.New("dev: write to read-only device")

func (d *Device) WriteAt(p []byte, off int64) (int, error) {
	if off < 0 {
		return 0, errors.New("dev: negative offset")
	}
	d.mu.Lock()
	defer d.mu.Unlock()
	if d.Mode != RW {
		d.roWrites++
		return 0, ErrReadOnlyDevice
	}
	n := len(p)
	var err error
	if off >= d.size {
		// like a block device: cannot grow
		return 0, fmt.Errorf("dev: write at %d beyond device size %d: %w", off, d.size, io.ErrShortWrite)
	}
	if off+int64(n) > d.size {
		n = int(d.size - off)
		err = io.ErrShortWrite
	}
	d.nWrites++
	rec := WriteRec{Seq: d.nWrites, Off: off, Len: n, Epoch: d.epoch}
	if d.KeepData {
		rec.Data = append([]byte(nil), p[:n]...)
	}
	if len(d.writes) < d.MaxLog {
		d.writes = append(d.writes, rec)
	}
	if d.guardOn && !covered(d.allowed, off, off+int64(n)) && n > 0 {
		if len(d.escapes) < 64 {
			e := rec
			e.Data = nil
			d.escapes = append(d.escapes, e)
		}
	}
	done := 0
	for done < n {
		o := off + int64(done)
		pi := o >> pageBits
		po := int(o & (pageSize - 1))
		c := pageSize - po
		if c > n-done {
			c = n - done
		}
		pg, ok := d.pages[pi]
		if !ok {
			// do not materialise a page for a write equal to the background
			if d.equalsBg(p[done:done+c], o) {
				done += c
				continue
			}
			pg = new([pageSize]byte)
			d.bgFill(pg[:], pi<<pageBits)
			d.pages[pi] = pg
		}
		copy(pg[po:po+c], p[done:done+c])
		done += c
	}
	return n, err
}

func (d *Device) equalsBg(p []byte, off int64) bool {
	if len(d.patterns) == 0 {
		for _, b := range p {
			if b != 0 {
				return false
			}
		}
		return true
	}
	for i, b := range p {
		if b != d.bgByte(off+int64(i)) {
			return false
		}
	}
	return true
}

// Sync closes the current write epoch.
func (d *Device) Sync() error {
	d.mu.Lock()
	d.epoch++
	d.syncs++
	d.mu.Unlock()
	return nil
}

// ---- instrumentation ----

func covered(allowed []Interval, lo, hi int64) bool {
	// allowed is sorted and non-overlapping
	for lo < hi {
		i := sort.Search(len(allowed), func(i int) bool { return allowed[i].Hi > lo })
		if i == len(allowed) || allowed[i].Lo > lo {
			return false
		}
		lo = allowed[i].Hi
	}
	return true
}

func normalize(iv []Interval) []Interval {
	iv = append([]Interval(nil), iv...)
	sort.Slice(iv, func(i, j int) bool { return iv[i].Lo < iv[j].Lo })
	var out []Interval
	for _, x := range iv {
		if x.Lo >= x.Hi {
			continue
		}
		if len(out) > 0 && x.Lo <= out[len(out)-1].Hi {
			if x.Hi > out[len(out)-1].Hi {
				out[len(out)-1].Hi = x.Hi
			}
			continue
		}
		out = append(out, x)
	}
	return out
}

// Guard restricts the allowed write ranges; writes outside are recorded as
// escapes (and still performed, behaviour is unchanged).
func (d *Device) Guard(allowed []Interval) {
	d.mu.Lock()
	d.allowed = normalize(allowed)
	d.guardOn = true
	d.mu.Unlock()
}

func (d *Device) Unguard() {
	d.mu.Lock()
	d.guardOn = false
	d.allowed = nil
	d.mu.Unlock()
}

// Escapes returns the writes that went outside the allowed ranges.
func (d *Device) Escapes() []WriteRec {
	d.mu.Lock()
	defer d.mu.Unlock()
	return append([]WriteRec(nil), d.escapes...)
}

// OutsideDiff scans every materialised page and reports the first byte outside
// the allowed ranges that differs from the background, or -1.
func (d *Device) OutsideDiff(allowed []Interval) int64 {
	allowed = normalize(allowed)
	d.mu.Lock()
	defer d.mu.Unlock()
	idx := make([]int64, 0, len(d.pages))
	for pi := range d.pages {
		idx = append(idx, pi)
	}
	sort.Slice(idx, func(i, j int) bool { return idx[i] < idx[j] })
	bg := make([]byte, pageSize)
	for _, pi := range idx {
		base := pi << pageBits
		if covered(allowed, base, base+pageSize) {
			continue
		}
		pg := d.pages[pi]
		d.bgFill(bg, base)
		for i := 0; i < pageSize; i++ {
			if pg[i] != bg[i] {
				o := base + int64(i)
				if !covered(allowed, o, o+1) {
					return o
				}
			}
		}
	}
	return -1
}

// Writes returns the write log (shared slice copy).
func (d *Device) Writes() []WriteRec {
	d.mu.Lock()
	defer d.mu.Unlock()
	return append([]WriteRec(nil), d.writes...)
}

func (d *Device) NWrites() int {
	d.mu.Lock()
	defer d.mu.Unlock()
	return d.nWrites
}

func (d *Device) NSyncs() int {
	d.mu.Lock()
	defer d.mu.Unlock()
	return d.syncs
}

// ROWrites counts WriteAt calls that arrived at a read-only device.
func (d *Device) ROWrites() int {
	d.mu.Lock()
	defer d.mu.Unlock()
	return d.roWrites
}

func (d *Device) ResetLog() {
	d.mu.Lock()
	d.writes = nil
	d.nWrites = 0
	d.escapes = nil
	d.reads = nil
	d.nReads = 0
	d.roWrites = 0
	d.epoch = 0
	d.syncs = 0
	d.mu.Unlock()
}

// Reads returns the merged set of byte ranges read so far.
func (d *Device) Reads() []Interval {
	d.mu.Lock()
	defer d.mu.Unlock()
	return normalize(d.reads)
}

// SetYieldPlan: on the k-th ReadAt, 1 = Gosched, n>1 = sleep n microseconds.
func (d *Device) SetYieldPlan(p map[int]int) {
	d.mu.Lock()
	d.yieldPlan = p
	d.mu.Unlock()
}

// Bytes returns a copy of [lo,hi).
func (d *Device) Bytes(lo, hi int64) []byte {
	if hi > d.size {
		hi = d.size
	}
	if lo >= hi {
		return nil
	}
	b := make([]byte, hi-lo)
	d.mu.Lock()
	_, _ = d.readLocked(b, lo)
	d.mu.Unlock()
	return b
}

// SHA256 of [lo,hi), streaming.
func (d *Device) SHA256(lo, hi int64) [32]byte {
	h := sha256.New()
	buf := make([]byte, pageSize)
	d.mu.Lock()
	defer d.mu.Unlock()
	for lo < hi {
		c := int64(pageSize)
		if c > hi-lo {
			c = hi - lo
		}
		_, _ = d.readLocked(buf[:c], lo)
		h.Write(buf[:c])
		lo += c
	}
	var out [32]byte
	copy(out[:], h.Sum(nil))
	return out
}

// Clone returns an independent device with the same contents and patterns
// (logs are not copied).
func (d *Device) Clone() *Device {
	d.mu.Lock()
	defer d.mu.Unlock()
	n := New(d.size)
	n.patterns = append([]Interval(nil), d.patterns...)
	for pi, pg := range d.pages {
		c := *pg
		n.pages[pi] = &c
	}
	return n
}

// Poke writes bytes without logging (used to build corrupted images).
func (d *Device) Poke(off int64, p []byte) {
	d.mu.Lock()
	defer d.mu.Unlock()
	for i := 0; i < len(p); {
		o := off + int64(i)
		if o >= d.size {
			return
		}
		pi := o >> pageBits
		po := int(o & (pageSize - 1))
		c := pageSize - po
		if c > len(p)-i {
			c = len(p) - i
		}
		pg, ok := d.pages[pi]
		if !ok {
			pg = new([pageSize]byte)
			d.bgFill(pg[:], pi<<pageBits)
			d.pages[pi] = pg
		}
		copy(pg[po:po+c], p[i:i+c])
		i += c
	}
}

// FromBytes builds a device holding b (size = len(b), or larger if size > len).
func FromBytes(b []byte, size int64) *Device {
	if size < int64(len(b)) {
		size = int64(len(b))
	}
	d := New(size)
	d.Poke(0, b)
	return d
}

// PagesInUse reports memory held.
func (d *Device) PagesInUse() int {
	d.mu.Lock()
	defer d.mu.Unlock()
	return len(d.pages)
}

var _ backend.Storage = (*Device)(nil)
var _ backend.WritableFile = (*Device)(nil)

// WriteRangeTo writes [lo,hi) into a (sparse) host file: only materialised or
// patterned pages are written, the rest stays a hole.
func (d *Device) WriteRangeTo(path string, lo, hi int64) error {
	f, err := os.OpenFile(path, os.O_RDWR|os.O_CREATE|os.O_TRUNC, 0o644)
	if err != nil {
		return err
	}
	defer f.Close()
	if err := f.Truncate(hi - lo); err != nil {
		return err
	}
	d.mu.Lock()
	defer d.mu.Unlock()
	buf := make([]byte, pageSize)
	for pi := lo >> pageBits; pi<<pageBits < hi; pi++ {
		pg, ok := d.pages[pi]
		base := pi << pageBits
		patterned := false
		for _, p := range d.patterns {
			if p.Lo < base+pageSize && p.Hi > base {
				patterned = true
			}
		}
		if !ok && !patterned {
			continue
		}
		if ok {
			copy(buf, pg[:])
		} else {
			d.bgFill(buf, base)
		}
		s, e := base, base+pageSize
		if s < lo {
			s = lo
		}
		if e > hi {
			e = hi
		}
		if _, err := f.WriteAt(buf[s-base:e-base], s-lo); err != nil {
			return err
		}
	}
	return nil
}

// FirstDiff returns the offset of the first byte that differs between two devices of the same
// size (only materialised pages can differ from the background), or -1.
func (d *Device) FirstDiff(o *Device) int64 {
	if d.size != o.size {
		return 0
	}
	d.mu.Lock()
	defer d.mu.Unlock()
	o.mu.Lock()
	defer o.mu.Unlock()
	idx := map[int64]bool{}
	for pi := range d.pages {
		idx[pi] = true
	}
	for pi := range o.pages {
		idx[pi] = true
	}
	keys := make([]int64, 0, len(idx))
	for pi := range idx {
		keys = append(keys, pi)
	}
	sort.Slice(keys, func(i, j int) bool { return keys[i] < keys[j] })
	a := make([]byte, pageSize)
	b := make([]byte, pageSize)
	for _, pi := range keys {
		base := pi << pageBits
		if pg, ok := d.pages[pi]; ok {
			copy(a, pg[:])
		} else {
			d.bgFill(a, base)
		}
		if pg, ok := o.pages[pi]; ok {
			copy(b, pg[:])
		} else {
			o.bgFill(b, base)
		}
		for i := range a {
			if a[i] != b[i] {
				return base + int64(i)
			}
		}
	}
	return -1
}
