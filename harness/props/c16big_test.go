package props

// C16, streaming path: CopyFileSystem copies files larger than 64 MiB in 32 KiB pieces. Reaching that path
// through real images costs minutes per case, so this part of the check gives CopyFileSystem a synthetic
// source (an fs.FS whose file readers behave in every way io.Reader allows) and an in-memory destination
// that implements filesystem.FileSystem on top of the reference tree model.

import (
	"crypto/sha256"
	"errors"
	"fmt"
	"hash"
	"io"
	iofs "io/fs"
	"os"
	"path"
	"sort"
	"strings"
	"time"

	"github.com/diskfs/go-diskfs/filesystem"
	dsync "github.com/diskfs/go-diskfs/sync"
	"pgregory.net/rapid"

	"verifharness/hx"
	"verifharness/mk"
	"verifharness/model"
)

type c16Big struct {
	Size   int64  `json:"size"`
	Reader string `json:"reader"` // eof-with-data | eof-separate | short | ragged
	Dir    string `json:"dir"`    // "" or a directory the file sits in
	Small  int    `json:"small"`  // size of a second, small file next to it
}

const c16Threshold = 64 << 20

func genC16Big(t *rapid.T) *c16Big {
	b := &c16Big{}
	b.Size = c16Threshold + rapid.SampledFrom([]int64{1, 1, 2, 32767, 32768, 32769, 100000, 65536, 1<<20 + 5, 3<<20 + 12345}).Draw(t, "bigDelta")
	if hx.Thorough() && rapid.IntRange(0, 14).Draw(t, "bigExact") == 0 {
		// exactly at the threshold the library reads the whole file into memory: ten times the cost: generated in the thorough tier only, the quick tier replays regress/C16/bigcopy-at-threshold-*.json
		b.Size = c16Threshold
	}
	b.Reader = rapid.SampledFrom([]string{"eof-with-data", "eof-separate", "short", "ragged"}).Draw(t, "bigReader")
	b.Dir = rapid.SampledFrom([]string{"", "deep/er"}).Draw(t, "bigDir")
	b.Small = rapid.SampledFrom([]int{0, 1, 40000}).Draw(t, "bigSmall")
	return b
}

// ---- synthetic source ----

type synthFS struct {
	files   map[string][]byte // path -> content (small files)
	dirs    map[string]bool
	reader  string
	bigPath string // one file whose content is generated on the fly (bigByteAt), never held in memory
	bigSize int64
}

var bigUnit = mk.Content{Seed: 77, Len: 1 << 20, Style: 0}.Bytes()

// bigFill writes the generated content of the big file for [off, off+len(p)).
func bigFill(p []byte, off int64) {
	for i := 0; i < len(p); {
		o := off + int64(i)
		u := int(o % int64(len(bigUnit)))
		n := copy(p[i:], bigUnit[u:])
		x := byte(o / int64(len(bigUnit)))
		for j := i; j < i+n; j++ {
			p[j] ^= x
		}
		i += n
	}
}

var bigDigests = map[int64][32]byte{}

func bigDigest(size int64) [32]byte {
	c18Mu.Lock()
	defer c18Mu.Unlock()
	if d, ok := bigDigests[size]; ok {
		return d
	}
	h := sha256.New()
	buf := make([]byte, 1<<20)
	for off := int64(0); off < size; off += int64(len(buf)) {
		n := int64(len(buf))
		if off+n > size {
			n = size - off
		}
		bigFill(buf[:n], off)
		h.Write(buf[:n])
	}
	var d [32]byte
	copy(d[:], h.Sum(nil))
	bigDigests[size] = d
	return d
}

type synthInfo struct {
	name string
	size int64
	dir  bool
}

func (i synthInfo) Name() string { return i.name }
func (i synthInfo) Size() int64  { return i.size }
func (i synthInfo) Mode() iofs.FileMode {
	if i.dir {
		return iofs.ModeDir | 0o755
	}
	return 0o644
}
func (i synthInfo) ModTime() time.Time           { return time.Unix(1700000000, 0) }
func (i synthInfo) IsDir() bool                  { return i.dir }
func (i synthInfo) Sys() any                     { return nil }
func (i synthInfo) Type() iofs.FileMode          { return i.Mode().Type() }
func (i synthInfo) Info() (iofs.FileInfo, error) { return i, nil }

type synthFile struct {
	info   synthInfo
	data   []byte // nil for the generated big file
	size   int64
	pos    int64
	reader string
	calls  int
}

func (f *synthFile) Stat() (iofs.FileInfo, error) { return f.info, nil }
func (f *synthFile) Close() error                 { return nil }
func (f *synthFile) Read(p []byte) (int, error) {
	f.calls++
	if f.pos >= f.size {
		return 0, io.EOF
	}
	if len(p) == 0 {
		return 0, nil
	}
	max := len(p)
	switch f.reader {
	case "short":
		if max > 1000 {
			max = 1000
		}
	case "ragged":
		if m := 1 + (f.calls*7919)%len(p); m < max {
			max = m
		}
	}
	if rem := f.size - f.pos; int64(max) > rem {
		max = int(rem)
	}
	n := max
	if f.data != nil {
		copy(p[:max], f.data[f.pos:])
	} else {
		bigFill(p[:max], f.pos)
	}
	f.pos += int64(n)
	if f.pos >= f.size && f.reader != "eof-separate" {
		return n, io.EOF // the last bytes arrive together with io.EOF, as io.Reader allows
	}
	return n, nil
}

type synthDir struct {
	info    synthInfo
	entries []iofs.DirEntry
	pos     int
}

func (d *synthDir) Stat() (iofs.FileInfo, error) { return d.info, nil }
func (d *synthDir) Close() error                 { return nil }
func (d *synthDir) Read([]byte) (int, error)     { return 0, errors.New("is a directory") }
func (d *synthDir) ReadDir(n int) ([]iofs.DirEntry, error) {
	if n <= 0 {
		out := d.entries[d.pos:]
		d.pos = len(d.entries)
		return out, nil
	}
	if d.pos >= len(d.entries) {
		return nil, io.EOF
	}
	end := d.pos + n
	if end > len(d.entries) {
		end = len(d.entries)
	}
	out := d.entries[d.pos:end]
	d.pos = end
	return out, nil
}

func (s *synthFS) Open(name string) (iofs.File, error) {
	if !iofs.ValidPath(name) {
		return nil, &iofs.PathError{Op: "open", Path: name, Err: iofs.ErrInvalid}
	}
	if b, ok := s.files[name]; ok {
		return &synthFile{info: synthInfo{name: path.Base(name), size: int64(len(b))}, data: b, size: int64(len(b)), reader: s.reader}, nil
	}
	if name == s.bigPath {
		return &synthFile{info: synthInfo{name: path.Base(name), size: s.bigSize}, size: s.bigSize, reader: s.reader}, nil
	}
	if name == "." || s.dirs[name] {
		var es []iofs.DirEntry
		seen := map[string]bool{}
		add := func(p string, dir bool, size int64) {
			parent := path.Dir(p)
			if parent != name || seen[p] {
				return
			}
			seen[p] = true
			es = append(es, synthInfo{name: path.Base(p), size: size, dir: dir})
		}
		for p, b := range s.files {
			add(p, false, int64(len(b)))
		}
		if s.bigPath != "" {
			add(s.bigPath, false, s.bigSize)
		}
		for p := range s.dirs {
			add(p, true, 0)
		}
		sort.Slice(es, func(i, j int) bool { return es[i].Name() < es[j].Name() })
		return &synthDir{info: synthInfo{name: path.Base(name), dir: true}, entries: es}, nil
	}
	return nil, &iofs.PathError{Op: "open", Path: name, Err: iofs.ErrNotExist}
}

// ---- in-memory destination ----

type memFS struct {
	m *model.Tree
	// the big file is not stored: what is written to it in sequence goes through a digest
	sinkPath string
	sinkLen  int64
	sinkSum  hash.Hash
	sinkBad  string
}

type memFile struct {
	fs   *memFS
	p    string
	pos  int64
	open bool
}

func (f *memFile) node() *model.Node { return f.fs.m.Lookup(f.p) }
func (f *memFile) Read(b []byte) (int, error) {
	n := f.node()
	if n == nil || f.pos >= int64(len(n.Data)) {
		return 0, io.EOF
	}
	c := copy(b, n.Data[f.pos:])
	f.pos += int64(c)
	return c, nil
}
func (f *memFile) Write(b []byte) (int, error) {
	n := f.node()
	if n == nil {
		return 0, os.ErrNotExist
	}
	if f.p == f.fs.sinkPath {
		if f.pos != f.fs.sinkLen && f.fs.sinkBad == "" {
			f.fs.sinkBad = fmt.Sprintf("a write of %d bytes at offset %d while %d bytes had been written", len(b), f.pos, f.fs.sinkLen)
		}
		f.fs.sinkSum.Write(b)
		f.fs.sinkLen += int64(len(b))
		f.pos += int64(len(b))
		return len(b), nil
	}
	n.WriteAt(f.pos, b)
	f.pos += int64(len(b))
	return len(b), nil
}
func (f *memFile) Seek(off int64, whence int) (int64, error) {
	n := f.node()
	switch whence {
	case io.SeekCurrent:
		off += f.pos
	case io.SeekEnd:
		off += int64(len(n.Data))
	}
	if off < 0 {
		return 0, errors.New("negative position")
	}
	f.pos = off
	return off, nil
}
func (f *memFile) Close() error { return nil }
func (f *memFile) Stat() (iofs.FileInfo, error) {
	n := f.node()
	if n == nil {
		return nil, os.ErrNotExist
	}
	return synthInfo{name: path.Base(f.p), size: int64(len(n.Data)), dir: n.Dir}, nil
}

func memClean(p string) string { return strings.Trim(path.Clean("/"+p), "/") }

func (m *memFS) Type() filesystem.Type { return filesystem.TypeExt4 }
func (m *memFS) Mkdir(p string) error  { return m.m.Mkdir(memClean(p)) }
func (m *memFS) Mknod(string, uint32, int) error {
	return filesystem.ErrNotSupported
}
func (m *memFS) Link(string, string) error    { return filesystem.ErrNotSupported }
func (m *memFS) Symlink(string, string) error { return filesystem.ErrNotSupported }
func (m *memFS) Chmod(string, os.FileMode) error {
	return filesystem.ErrNotSupported
}
func (m *memFS) Chown(string, int, int) error { return filesystem.ErrNotSupported }
func (m *memFS) Chtimes(string, time.Time, time.Time, time.Time) error {
	return nil
}
func (m *memFS) Rename(string, string) error { return filesystem.ErrNotSupported }
func (m *memFS) Remove(p string) error       { return m.m.Remove(memClean(p)) }
func (m *memFS) Label() string               { return "" }
func (m *memFS) SetLabel(string) error       { return nil }
func (m *memFS) Close() error                { return nil }
func (m *memFS) OpenFile(p string, flag int) (filesystem.File, error) {
	p = memClean(p)
	n := m.m.Lookup(p)
	if n == nil {
		if flag&os.O_CREATE == 0 {
			return nil, os.ErrNotExist
		}
		var err error
		if n, err = m.m.Create(p); err != nil {
			return nil, err
		}
	}
	if n.Dir {
		return nil, errors.New("is a directory")
	}
	if flag&os.O_TRUNC != 0 {
		n.Data = n.Data[:0]
		if p == m.sinkPath {
			m.sinkLen, m.sinkBad = 0, ""
			m.sinkSum.Reset()
		}
	}
	f := &memFile{fs: m, p: p}
	if flag&os.O_APPEND != 0 {
		f.pos = int64(len(n.Data))
	}
	return f, nil
}
func (m *memFS) Open(p string) (iofs.File, error) { return m.OpenFile(p, os.O_RDONLY) }
func (m *memFS) ReadFile(p string) ([]byte, error) {
	n := m.m.Lookup(memClean(p))
	if n == nil || n.Dir {
		return nil, os.ErrNotExist
	}
	return append([]byte(nil), n.Data...), nil
}
func (m *memFS) Stat(p string) (iofs.FileInfo, error) {
	n := m.m.Lookup(memClean(p))
	if n == nil {
		return nil, os.ErrNotExist
	}
	return synthInfo{name: path.Base(p), size: int64(len(n.Data)), dir: n.Dir}, nil
}
func (m *memFS) ReadDir(p string) ([]iofs.DirEntry, error) {
	n := m.m.Lookup(memClean(p))
	if memClean(p) == "" {
		n = m.m.Root
	}
	if n == nil || !n.Dir {
		return nil, os.ErrNotExist
	}
	var out []iofs.DirEntry
	for _, name := range n.ChildNames() {
		c := n.Children[m.m.Fold(name)]
		out = append(out, synthInfo{name: c.Name, size: int64(len(c.Data)), dir: c.Dir})
	}
	return out, nil
}

var _ filesystem.FileSystem = (*memFS)(nil)

// execC16Big copies the synthetic tree into the in-memory destination and compares digests.
func execC16Big(r *hx.Result, b *c16Big) {
	r.Class("mode:bigcopy")
	r.Class("big-reader:" + b.Reader)
	if b.Size > c16Threshold {
		r.Class("big:streamed")
	} else {
		r.Class("big:at-or-below-threshold")
	}
	src := &synthFS{files: map[string][]byte{}, dirs: map[string]bool{}, reader: b.Reader}
	bigPath := "BIG.BIN"
	if b.Dir != "" {
		d := ""
		for _, part := range strings.Split(b.Dir, "/") {
			d = path.Join(d, part)
			src.dirs[d] = true
		}
		bigPath = path.Join(b.Dir, bigPath)
	}
	src.bigPath, src.bigSize = bigPath, b.Size
	if b.Small > 0 {
		src.files["SMALL.TXT"] = mk.Content{Seed: 78, Len: b.Small, Style: 2}.Bytes()
	}
	dst := &memFS{m: model.New(model.Exact), sinkPath: bigPath, sinkSum: sha256.New()}
	var err error
	fin := hx.WithTimeout(10*watchdog(), func() {
		if p, pv, st := hx.Safe(func() { err = dsync.CopyFileSystem(src, dst) }); p {
			r.Fail("copy-panic", "CopyFileSystem of a %d-byte file (%s reader) panicked: %v [%s]", b.Size, b.Reader, pv, st)
		}
	})
	if !fin {
		r.Fail("hang", "CopyFileSystem of a %d-byte file (%s reader) did not return", b.Size, b.Reader)
	}
	if r.Failed() {
		return
	}
	if err != nil {
		r.Fail("copy-error", "CopyFileSystem of a %d-byte file (%s reader) into a destination with room fails: %v", b.Size, b.Reader, err)
		return
	}
	if n := dst.m.Lookup(bigPath); n == nil {
		r.Fail("copy-missing", "after CopyFileSystem returned nil the destination has no %q (source: %d bytes, %s reader)", bigPath, b.Size, b.Reader)
		return
	}
	var got [32]byte
	copy(got[:], dst.sinkSum.Sum(nil))
	if dst.sinkBad != "" || dst.sinkLen != b.Size || got != bigDigest(b.Size) {
		r.Fail("copy-content", "after CopyFileSystem returned nil %q holds %d bytes in the destination, the source has %d (digests %x vs %x; %s; %s reader, streaming threshold %d)", bigPath, dst.sinkLen, b.Size, got[:6], func() []byte { d := bigDigest(b.Size); return d[:6] }(), dst.sinkBad, b.Reader, c16Threshold)
		return
	}
	for p, want := range src.files {
		n := dst.m.Lookup(p)
		if n == nil {
			r.Fail("copy-missing", "after CopyFileSystem returned nil the destination has no %q (source: %d bytes, %s reader)", p, len(want), b.Reader)
			return
		}
		if len(n.Data) != len(want) || sha256.Sum256(n.Data) != sha256.Sum256(want) {
			first := 0
			for first < len(n.Data) && first < len(want) && n.Data[first] == want[first] {
				first++
			}
			r.Fail("copy-content", "after CopyFileSystem returned nil %q holds %d bytes in the destination, the source has %d (first difference at offset %d; %s reader, streaming threshold %d)", p, len(n.Data), len(want), first, b.Reader, c16Threshold)
			return
		}
	}
	for d := range src.dirs {
		if n := dst.m.Lookup(d); n == nil || !n.Dir {
			r.Fail("copy-missing", "after CopyFileSystem returned nil the destination has no directory %q", d)
			return
		}
	}
	r.Nontrivial = true
	_ = fmt.Sprint
}
