package props

import "pgregory.net/rapid"

// genE4Params draws non-default ext4 Create parameters from labelled regions (C05).
func genE4Params(t *rapid.T, c *e4Cfg) {
	o := &c.Opts
	bs := c.blockSize()
	if rapid.IntRange(0, 2).Draw(t, "pSPB") == 0 && o.SectorsPerBlock == 0 {
		o.SectorsPerBlock = rapid.SampledFrom([]uint8{2, 4}).Draw(t, "spb")
		bs = int(o.SectorsPerBlock) * 512
	}
	if rapid.IntRange(0, 2).Draw(t, "pBPG") == 0 {
		o.BlocksPerGroup = uint32(rapid.SampledFrom([]int{256, 512, 1024, 2048, 4096, 8 * bs}).Draw(t, "bpg"))
		if int(o.BlocksPerGroup) > 8*bs {
			o.BlocksPerGroup = uint32(8 * bs)
		}
	}
	if rapid.IntRange(0, 2).Draw(t, "pRatio") == 0 {
		o.InodeRatio = rapid.SampledFrom([]int64{1024, 4096, 16384, 65536, 1 << 20}).Draw(t, "iratio")
	}
	if rapid.IntRange(0, 3).Draw(t, "pICount") == 0 {
		o.InodeCount = uint32(rapid.SampledFrom([]int{16, 64, 100, 1000, 5000}).Draw(t, "icount"))
	}
	if rapid.IntRange(0, 3).Draw(t, "p64") == 0 {
		o.Bit64 = bp(true)
	}
	if rapid.IntRange(0, 3).Draw(t, "pFlex") == 0 {
		o.LogFlex = rapid.SampledFrom([]int{1, 2, 4, 5}).Draw(t, "logflex")
	}
	if rapid.IntRange(0, 3).Draw(t, "pHuge") == 0 {
		o.HugeFile = bp(rapid.Bool().Draw(t, "hugefile"))
	}
	if rapid.IntRange(0, 3).Draw(t, "pDirIdx") == 0 {
		o.DirIndex = bp(rapid.Bool().Draw(t, "dirindex"))
	}
	if rapid.IntRange(0, 3).Draw(t, "pResize") == 0 && o.ResizeIno == nil {
		o.ResizeIno = bp(rapid.Bool().Draw(t, "resize"))
	}
	if rapid.IntRange(0, 3).Draw(t, "pGdt") == 0 && o.MetaCsum != nil && !*o.MetaCsum {
		o.GdtCsum = bp(rapid.Bool().Draw(t, "gdtcsum"))
	}
	if rapid.IntRange(0, 3).Draw(t, "pLabel") == 0 {
		o.Label = rapid.SampledFrom([]string{"", "data", "sixteen-chars-xx", "a b"}).Draw(t, "e4label")
	}
	// regions recorded as known findings that are defined by a parameter value are excluded by
	// construction while their canonical replay still fails (layout findings are matched by
	// their e2fsck signature at the Create step instead, see knownFsck)
	if o.GdtCsum != nil && *o.GdtCsum && hx_Active("KF-E4-GDTCSUM") {
		hx_Excluded("C05", "KF-E4-GDTCSUM")
		o.GdtCsum = nil
	}
	if rapid.IntRange(0, 5).Draw(t, "pFlexOff") == 0 {
		o.FlexBG = bp(false)
	}
	if rapid.IntRange(0, 5).Draw(t, "pSparse2") == 0 {
		if hx_Active("KF-E4-SPARSE2") {
			hx_Excluded("C05", "KF-E4-SPARSE2")
		} else {
			o.SparseSuper = 2
		}
	}
}
