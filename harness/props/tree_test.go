package props

// Source-tree generator shared by C03, C06, C07, C16, C19, C20.

import (
	"fmt"
	"path"
	"sort"
	"strings"

	"pgregory.net/rapid"

	"verifharness/mk"
)

type treeOpts struct {
	maxEntries int
	maxDepth   int
	symlinks   bool
	unit       int    // block size the file sizes are biased around
	maxFile    int    // upper bound for random file sizes
	names      string // "posix", "iso", "fat"
	bigDirs    bool   // allow a directory with hundreds of entries
	meta       bool   // draw mode/uid/gid/mtime
	styles     []int  // content styles to draw from
}

type treeStats struct {
	depth      int
	maxDirSize int
	files      int
	dirs       int
	links      int
	multiBlock int
	collisions int
}

func genName(t *rapid.T, style string, used map[string]bool, i int) string {
	for attempt := 0; attempt < 50; attempt++ {
		var n string
		switch style {
		case "fat":
			n = rapid.SampledFrom([]string{"readme.txt", "DATA.BIN", "Makefile", "a.b", "long file name here.dat", "x", "notes-été.md", "UPPER", "lower", "Mixed.Case", "file+plus.c"}).Draw(t, "fatName")
			if attempt > 0 || used[strings.ToLower(n)] {
				n = fmt.Sprintf("n%d_%s", i*50+attempt, n)
			}
			if st, ex, _ := fatBasis(n); used["b:"+st+"|"+ex] {
				continue
			}
		case "iso":
			switch rapid.IntRange(0, 5).Draw(t, "isoNameMode") {
			case 0:
				n = rapid.StringMatching(`[A-Z0-9_]{1,8}(\.[A-Z0-9_]{1,3})?`).Draw(t, "iso83")
			case 1:
				n = rapid.StringMatching(`[a-z]{1,12}\.[a-z]{1,5}`).Draw(t, "isoLower")
			case 2:
				n = "collision-prefix-" + rapid.StringMatching(`[a-z0-9]{1,6}`).Draw(t, "isoColl") + ".txt"
			case 3:
				n = rapid.StringMatching(`[A-Za-z0-9 ._+-]{1,40}`).Draw(t, "isoAny")
			case 4:
				n = rapid.StringMatching(`[a-z]{1,4}`).Draw(t, "isoShort")
			default:
				n = "unicode-é-ß-" + rapid.StringMatching(`[a-z]{1,5}`).Draw(t, "isoUni")
			}
		default:
			switch rapid.IntRange(0, 5).Draw(t, "nameMode") {
			case 0:
				n = rapid.StringMatching(`[a-z]{1,8}`).Draw(t, "nameShort")
			case 1:
				n = rapid.StringMatching(`[A-Za-z0-9._-]{1,30}`).Draw(t, "nameMid")
			case 2:
				n = rapid.StringMatching(`[a-z]{1,6}\.[a-z]{1,4}`).Draw(t, "nameExt")
			case 3:
				n = "ünï-" + rapid.StringMatching(`[a-z0-9]{1,10}`).Draw(t, "nameUni") + "-文件"
			case 4:
				n = strings.Repeat("L", rapid.SampledFrom([]int{100, 200, 250}).Draw(t, "nameLongLen")) + rapid.StringMatching(`[a-z]{1,4}`).Draw(t, "nameLongTail")
			default:
				n = rapid.StringMatching(`[ -.0-~]{1,20}`).Draw(t, "namePrintable")
			}
		}
		n = strings.TrimSpace(n)
		if n == "" || n == "." || n == ".." || strings.ContainsAny(n, "/\x00") || len(n) > 255 {
			continue
		}
		key := n
		if style == "fat" {
			key = strings.ToLower(n)
			if strings.ContainsAny(n, `\:*?"<>|~`) || strings.HasSuffix(n, ".") || strings.HasSuffix(n, " ") {
				continue
			}
		}
		if used[key] {
			continue
		}
		used[key] = true
		if style == "fat" {
			st, ex, tr := fatBasis(n)
			if !tr {
				used["b:"+st+"|"+ex] = true
			}
		}
		return n
	}
	n := fmt.Sprintf("fallback%d", i)
	used[n] = true
	return n
}

func genTree(t *rapid.T, o treeOpts) []mk.Entry {
	if o.unit == 0 {
		o.unit = 4096
	}
	if o.maxFile == 0 {
		o.maxFile = 5 * o.unit
	}
	if len(o.styles) == 0 {
		o.styles = []int{0, 0, 1, 2, 3}
	}
	type dirInfo struct {
		path    string
		depth   int
		used    map[string]bool
		subdirs []string
	}
	dirs := []*dirInfo{{path: "", depth: 0, used: map[string]bool{}}}
	var out []mk.Entry
	var filePaths []string
	n := rapid.IntRange(0, o.maxEntries).Draw(t, "treeN")
	u := o.unit
	sizes := []int{0, 1, u - 1, u, u + 1, 2 * u, 2*u + 1, 3*u + 100, u / 2}
	addMeta := func(e *mk.Entry) {
		if !o.meta {
			return
		}
		if rapid.Bool().Draw(t, "hasMode") && e.Kind != mk.KLink {
			e.Mode = uint32(rapid.SampledFrom([]int{0o644, 0o600, 0o755, 0o444, 0o777, 0o4755, 0o2755, 0o1777, 0o7777, 0o400, 0o111}).Draw(t, "mode"))
		}
		if rapid.Bool().Draw(t, "hasOwner") {
			e.UID = rapid.SampledFrom([]int{0, 1, 1000, 65534, 65535, 65536, 100000, 2147483647, 4294967294}).Draw(t, "uid")
			e.GID = rapid.SampledFrom([]int{0, 5, 1000, 65535, 65536, 70000, 4294967294}).Draw(t, "gid")
		}
		if rapid.Bool().Draw(t, "hasMtime") && e.Kind != mk.KLink {
			e.Mtime = rapid.SampledFrom([]int64{1, 86400, 315532800, 946684800, 1700000001, 2147483647, 2147483648, 4102444800}).Draw(t, "mtime")
		}
	}
	for i := 0; i < n; i++ {
		d := dirs[rapid.IntRange(0, len(dirs)-1).Draw(t, "parent")]
		kind := rapid.IntRange(0, 9).Draw(t, "entryKind")
		name := genName(t, o.names, d.used, i)
		if kind <= 2 && o.names != "fat" && len(d.subdirs) > 0 && rapid.IntRange(0, 5).Draw(t, "caseTwin") == 0 {
			// a sibling directory whose name differs from an existing one only by case (distinct on every
			// case-sensitive name space: Rock Ridge, Joliet, squashfs, ext4)
			if tw := caseVariant(d.subdirs[len(d.subdirs)-1]); !d.used[tw] {
				d.used[tw] = true
				name = tw
			}
		}
		p := path.Join(d.path, name)
		switch {
		case kind <= 2 && d.depth+1 < o.maxDepth:
			d.subdirs = append(d.subdirs, name)
			e := mk.Entry{Path: p, Kind: mk.KDir}
			addMeta(&e)
			out = append(out, e)
			dirs = append(dirs, &dirInfo{path: p, depth: d.depth + 1, used: map[string]bool{}})
		case kind == 3 && o.symlinks:
			var target string
			switch rapid.IntRange(0, 4).Draw(t, "linkMode") {
			case 0:
				target = "/abs/olute/" + rapid.StringMatching(`[a-z]{1,10}`).Draw(t, "linkAbs")
			case 1:
				target = "../" + rapid.StringMatching(`[a-z]{1,10}`).Draw(t, "linkRel")
			case 2:
				if len(filePaths) > 0 {
					target = "/" + rapid.SampledFrom(filePaths).Draw(t, "linkFile")
				} else {
					target = "nowhere"
				}
			case 3:
				target = strings.Repeat("t", rapid.SampledFrom([]int{1, 59, 60, 61, 255, 300, 1000}).Draw(t, "linkLen"))
			default:
				target = rapid.StringMatching(`[a-z/.]{1,40}`).Draw(t, "linkAny")
			}
			e := mk.Entry{Path: p, Kind: mk.KLink, Target: target}
			addMeta(&e)
			out = append(out, e)
		default:
			sz := 0
			if rapid.IntRange(0, 3).Draw(t, "fsizeMode") == 0 {
				sz = rapid.IntRange(0, o.maxFile).Draw(t, "fsize")
			} else {
				sz = rapid.SampledFrom(sizes).Draw(t, "fsizeB")
			}
			e := mk.Entry{Path: p, Kind: mk.KFile, Data: mk.Content{Seed: uint32(i + 1), Len: sz, Style: rapid.SampledFrom(o.styles).Draw(t, "fstyle")}}
			addMeta(&e)
			out = append(out, e)
			filePaths = append(filePaths, p)
		}
	}
	if o.bigDirs && rapid.IntRange(0, 3).Draw(t, "bigDir") == 0 {
		d := dirs[rapid.IntRange(0, len(dirs)-1).Draw(t, "bigParent")]
		cnt := rapid.SampledFrom([]int{40, 120, 300}).Draw(t, "bigCount")
		long := rapid.Bool().Draw(t, "bigLong")
		for i := 0; i < cnt; i++ {
			name := fmt.Sprintf("b%04d", i)
			if long {
				name = fmt.Sprintf("big-directory-entry-number-%04d.data", i)
			}
			if d.used[name] {
				continue
			}
			d.used[name] = true
			out = append(out, mk.Entry{Path: path.Join(d.path, name), Kind: mk.KFile, Data: mk.Content{Seed: uint32(1000 + i), Len: i % 7}})
		}
	}
	return out
}

func treeStatsOf(es []mk.Entry, unit int) treeStats {
	var s treeStats
	perDir := map[string]int{}
	for _, e := range es {
		d := strings.Count(e.Path, "/") + 1
		if d > s.depth {
			s.depth = d
		}
		perDir[path.Dir(e.Path)]++
		switch e.Kind {
		case mk.KDir:
			s.dirs++
		case mk.KLink:
			s.links++
		default:
			s.files++
			if e.Data.Len > unit {
				s.multiBlock++
			}
		}
	}
	for _, c := range perDir {
		if c > s.maxDirSize {
			s.maxDirSize = c
		}
	}
	return s
}

func sortedPaths(es []mk.Entry) []string {
	var p []string
	for _, e := range es {
		p = append(p, e.Path)
	}
	sort.Strings(p)
	return p
}
