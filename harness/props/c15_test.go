package props

// C15 — Reading a partition table from untrusted bytes cannot crash.
// Fault enumeration over valid base images: every GPT header field x boundary
// values x {CRC recomputed, stale} x {primary, backup, both}, 2-field
// combinations of the size-determining fields, entry-level corruptions, MBR
// slot bytes, truncated devices; plus seeded random images.

import (
	"encoding/binary"
	"fmt"
	"hash/crc32"
	"math"
	"runtime/metrics"
	"strings"
	"testing"
	"time"

	"github.com/diskfs/go-diskfs/partition"
	"github.com/diskfs/go-diskfs/partition/gpt"
	"github.com/diskfs/go-diskfs/partition/mbr"
	"pgregory.net/rapid"

	"verifharness/dev"
	"verifharness/hx"
	"verifharness/indep"
)

type c15Poke struct {
	Where string `json:"where"` // primary, backup, parray, barray, lba0
	Off   int    `json:"off"`   // offset inside that structure
	Hex   string `json:"hex"`   // bytes to write
}

type c15Fault struct {
	Pokes    []c15Poke `json:"pokes,omitempty"`
	FixHCRC  bool      `json:"fix_hcrc,omitempty"` // recompute header CRC(s) of the poked header(s)
	FixACRC  bool      `json:"fix_acrc,omitempty"` // recompute array CRC in the header(s) (and then header CRC)
	Truncate int64     `json:"truncate,omitempty"` // >0: device holds only the first N bytes; -1: zero-length device
}

type c15Case struct {
	Base   *tableSpec `json:"base,omitempty"`
	Random []byte     `json:"random,omitempty"` // a raw image instead of a base
	RLSS   int        `json:"rlss,omitempty"`
	Seed   uint64     `json:"seed"`
	Stride int        `json:"stride"`         // run every Stride-th family member, phase Seed%Stride (1 = all)
	Only   *c15Fault  `json:"only,omitempty"` // replay: run exactly this family member
}

func genC15(t *rapid.T) any {
	c := c15Case{Seed: rapid.Uint64().Draw(t, "seed"), Stride: 1}
	if !hx.Thorough() {
		c.Stride = 4
	}
	if rapid.IntRange(0, 9).Draw(t, "kind") == 0 {
		n := rapid.SampledFrom([]int{0, 1, 511, 512, 513, 1024, 4096, 8192, 20000, 70000}).Draw(t, "rlen")
		b := rapid.SliceOfN(rapid.Byte(), n, n).Draw(t, "rbytes")
		if len(b) >= 1024 && rapid.Bool().Draw(t, "plantSig") {
			copy(b[512:], "EFI PART")
			copy(b[520:], []byte{0, 0, 1, 0, 0x5c, 0, 0, 0})
		}
		if len(b) >= 512 && rapid.Bool().Draw(t, "plantMBR") {
			b[510], b[511] = 0x55, 0xaa
		}
		c.Random = b
		c.RLSS = rapid.SampledFrom([]int{512, 4096}).Draw(t, "rlss")
		return c
	}
	var s tableSpec
	if rapid.IntRange(0, 4).Draw(t, "baseKind") == 0 {
		m := genMBRSpec(t, false)
		if m.Sectors > 20000 {
			m.Sectors = uint64(rapid.IntRange(64, 20000).Draw(t, "mbrSectors"))
		}
		s = tableSpec{M: m}
	} else {
		g := genGPTSpec(t, false)
		if g.Sectors > 20000 {
			g.Sectors = uint64(rapid.IntRange(int(2*gptArraySectors(g.LSS)+8), 20000).Draw(t, "gptSectors"))
			g.Parts = nil
			genGPTParts(t, g)
		}
		s = tableSpec{G: g}
	}
	c.Base = &s
	return c
}

func le(v uint64, w int) []byte {
	b := make([]byte, 8)
	binary.LittleEndian.PutUint64(b, v)
	return b[:w]
}

func boundaryValues(w int, sectors uint64) [][]byte {
	max := uint64(1)<<(uint(w)*8) - 1
	if w == 8 {
		max = ^uint64(0)
	}
	vals := []uint64{0, 1, 2, 127, 128, 129, 255, 256, 4095, 4096, 1 << 16, 1<<16 + 1, 1 << 24, 1<<25 - 1, 1 << 31, 1<<31 - 1, max >> 1, max>>1 + 1, max - 1, max,
		sectors - 1, sectors, sectors + 1, sectors - 33, sectors / 2, 1 << 32 / 128, 1<<32/128 + 1, 1 << 57, 1 << 56}
	seen := map[uint64]bool{}
	var out [][]byte
	for _, v := range vals {
		v &= max
		if !seen[v] {
			seen[v] = true
			out = append(out, le(v, w))
		}
	}
	return out
}

type gptField struct {
	name string
	off  int
	w    int
}

var gptHeaderFields = []gptField{
	{"signature", 0, 8}, {"revision", 8, 4}, {"headersize", 12, 4}, {"headercrc", 16, 4}, {"reserved", 20, 4},
	{"mylba", 24, 8}, {"altlba", 32, 8}, {"firstusable", 40, 8}, {"lastusable", 48, 8}, {"diskguid", 56, 16},
	{"arraylba", 72, 8}, {"count", 80, 4}, {"entrysize", 84, 4}, {"arraycrc", 88, 4},
}

func hexs(b []byte) string { return fmt.Sprintf("%x", b) }

func unhex(s string) []byte {
	b := make([]byte, len(s)/2)
	fmt.Sscanf(s, "%x", &b)
	return b
}

// gptFaults enumerates the family for a GPT base.
func gptFaults(g *gptSpec, emit func(f c15Fault) bool) {
	sectors := g.Sectors
	targets := [][]string{{"primary"}, {"backup"}, {"primary", "backup"}}
	for _, fld := range gptHeaderFields {
		var vals [][]byte
		if fld.w <= 8 && fld.name != "signature" {
			vals = boundaryValues(fld.w, sectors)
		} else {
			z := make([]byte, fld.w)
			f := make([]byte, fld.w)
			for i := range f {
				f[i] = 0xff
			}
			vals = [][]byte{z, f}
		}
		for _, v := range vals {
			for _, tg := range targets {
				for _, fix := range []bool{true, false} {
					if fld.name == "headercrc" && fix {
						continue
					}
					var ps []c15Poke
					for _, w := range tg {
						ps = append(ps, c15Poke{Where: w, Off: fld.off, Hex: hexs(v)})
					}
					if !emit(c15Fault{Pokes: ps, FixHCRC: fix}) {
						return
					}
				}
			}
		}
	}
	// the array-describing fields with BOTH checksums recomputed, so that the header is accepted and the array
	// checksum matches whatever the header now describes (a shorter, longer, empty or differently strided array).
	// A declared count that ends inside a sector leaves slots behind it that no checksum covers: they are filled
	// with bytes that decode as a partition, which must not be listed.
	arrayOf := map[string]string{"primary": "parray", "backup": "barray"}
	junk := make([]byte, 128)
	for i := range junk {
		junk[i] = byte(0x11 + i%7)
	}
	binary.LittleEndian.PutUint64(junk[32:40], 40)
	binary.LittleEndian.PutUint64(junk[40:48], 50)
	for _, cnt := range []uint32{0, 1, 2, 3, 5, 6, 7, 9, 33, 126, 127} {
		for _, tg := range targets {
			var ps []c15Poke
			for _, w := range tg {
				ps = append(ps, c15Poke{Where: w, Off: 80, Hex: hexs(le(uint64(cnt), 4))}, c15Poke{Where: arrayOf[w], Off: int(cnt) * 128, Hex: hexs(junk)})
			}
			if !emit(c15Fault{Pokes: ps, FixACRC: true, FixHCRC: true}) {
				return
			}
		}
	}
	for _, es := range []uint32{0, 1, 64, 127, 129, 256, 384, 512, 4096} {
		for _, tg := range targets {
			var ps []c15Poke
			for _, w := range tg {
				ps = append(ps, c15Poke{Where: w, Off: 84, Hex: hexs(le(uint64(es), 4))})
			}
			if !emit(c15Fault{Pokes: ps, FixACRC: true, FixHCRC: true}) {
				return
			}
			// with fewer entries, so that count x size stays inside the array that is on disk
			for _, cnt := range []uint32{0, 1, 4, 16} {
				ps2 := append([]c15Poke(nil), ps...)
				for _, w := range tg {
					ps2 = append(ps2, c15Poke{Where: w, Off: 80, Hex: hexs(le(uint64(cnt), 4))})
				}
				if !emit(c15Fault{Pokes: ps2, FixACRC: true, FixHCRC: true}) {
					return
				}
			}
		}
	}
	// 2-field combinations of the size-determining fields
	sizeFields := []gptField{{"mylba", 24, 8}, {"arraylba", 72, 8}, {"count", 80, 4}, {"entrysize", 84, 4}}
	small := func(w int) [][]byte {
		max := uint64(1)<<(uint(w)*8) - 1
		if w == 8 {
			max = ^uint64(0)
		}
		var out [][]byte
		vs := []uint64{0, 1, 128, 1 << 16, 1 << 25, max >> 1, max, sectors - 1, sectors + 1}
		if w == 8 {
			// the largest block numbers whose byte offset still fits a signed 64-bit integer: offset + size wraps here
			for _, lss := range []uint64{512, 4096} {
				vs = append(vs, math.MaxInt64/lss, math.MaxInt64/lss-1, math.MaxInt64/lss+1, (math.MaxInt64-(16<<20))/lss+1)
			}
		} else {
			// the largest entry counts the 16 MiB array cap admits
			vs = append(vs, 1<<17, 1<<17-1, 1<<17+1)
		}
		for _, v := range vs {
			out = append(out, le(v&max, w))
		}
		return out
	}
	for i := 0; i < len(sizeFields); i++ {
		for j := i + 1; j < len(sizeFields); j++ {
			for _, v1 := range small(sizeFields[i].w) {
				for _, v2 := range small(sizeFields[j].w) {
					for _, tg := range targets {
						var ps []c15Poke
						for _, w := range tg {
							ps = append(ps, c15Poke{Where: w, Off: sizeFields[i].off, Hex: hexs(v1)}, c15Poke{Where: w, Off: sizeFields[j].off, Hex: hexs(v2)})
						}
						if !emit(c15Fault{Pokes: ps, FixHCRC: true}) {
							return
						}
					}
				}
			}
		}
	}
	// entry-level corruptions (array CRC recomputed or stale)
	slots := []int{0, 1, 2, 127}
	for _, p := range g.Parts {
		if len(slots) < 8 {
			slots = append(slots, p.Index-1)
		}
	}
	entryFields := []gptField{{"type", 0, 16}, {"guid", 16, 16}, {"first", 32, 8}, {"last", 40, 8}, {"attrs", 48, 8}, {"name0", 56, 2}, {"namelast", 126, 2}}
	for _, sl := range slots {
		for _, ef := range entryFields {
			var vals [][]byte
			if ef.w <= 8 {
				vals = [][]byte{le(0, ef.w), le(1, ef.w), le(^uint64(0), ef.w), le(sectors, ef.w), le(0xD800, ef.w), le(0xDC00, ef.w), le(1<<63, ef.w)}
			} else {
				f := make([]byte, ef.w)
				for i := range f {
					f[i] = 0xff
				}
				vals = [][]byte{make([]byte, ef.w), f}
			}
			for _, v := range vals {
				for _, arr := range [][]string{{"parray"}, {"barray"}, {"parray", "barray"}} {
					for _, fix := range []bool{true, false} {
						var ps []c15Poke
						for _, w := range arr {
							ps = append(ps, c15Poke{Where: w, Off: sl*128 + ef.off, Hex: hexs(v)})
						}
						if !emit(c15Fault{Pokes: ps, FixACRC: fix, FixHCRC: fix}) {
							return
						}
					}
				}
			}
		}
	}
	// all-surrogate name (72 bytes of D800) in slot 0
	sur := make([]byte, 72)
	for i := 0; i < 72; i += 2 {
		sur[i], sur[i+1] = 0x00, 0xD8
	}
	emit(c15Fault{Pokes: []c15Poke{{Where: "parray", Off: 56, Hex: hexs(sur)}, {Where: "parray", Off: 0, Hex: "01"}}, FixACRC: true, FixHCRC: true})
	// protective MBR / LBA0 bytes
	lba0Faults(emit)
	// truncated devices
	size := int64(sectors)*int64(g.LSS) + int64(g.Slack)
	lss := int64(g.LSS)
	as := int64(gptArraySectors(g.LSS))
	for _, l := range []int64{-1, 1, 511, 512, 513, 1023, 1024, 1025, lss - 1, lss, lss + 1, 2*lss - 1, 2 * lss, 2*lss + 1, 2*lss + 128, (2 + as) * lss, (2+as)*lss - 1, size - lss, size - lss - 1, size - 1, size - (as+1)*lss} {
		if l == 0 || l >= size {
			continue
		}
		if !emit(c15Fault{Truncate: l}) {
			return
		}
	}
}

func lba0Faults(emit func(f c15Fault) bool) {
	for slot := 0; slot < 4; slot++ {
		base := 446 + 16*slot
		for _, v := range []byte{0x00, 0x01, 0x7f, 0x80, 0x81, 0xff} {
			if !emit(c15Fault{Pokes: []c15Poke{{Where: "lba0", Off: base, Hex: hexs([]byte{v})}}}) {
				return
			}
		}
		for _, v := range []byte{0x00, 0xee, 0xef, 0x05, 0x0f, 0x83, 0xff} {
			if !emit(c15Fault{Pokes: []c15Poke{{Where: "lba0", Off: base + 4, Hex: hexs([]byte{v})}}}) {
				return
			}
		}
		for _, off := range []int{8, 12} {
			for _, v := range []uint64{0, 1, 0x7fffffff, 0x80000000, 0xfffffffe, 0xffffffff} {
				if !emit(c15Fault{Pokes: []c15Poke{{Where: "lba0", Off: base + off, Hex: hexs(le(v, 4))}}}) {
					return
				}
			}
		}
	}
	for _, sig := range []string{"0000", "55ab", "aa55", "ffff", "5500"} {
		if !emit(c15Fault{Pokes: []c15Poke{{Where: "lba0", Off: 510, Hex: sig}}}) {
			return
		}
	}
}

func mbrFaults(m *mbrSpec, emit func(f c15Fault) bool) {
	lba0Faults(emit)
	size := int64(m.Sectors) * int64(m.LSS)
	for _, l := range []int64{-1, 1, 446, 510, 511, 512, 513} {
		if l >= size {
			continue
		}
		if !emit(c15Fault{Truncate: l}) {
			return
		}
	}
}

func fixCRC(d *dev.Device, lss int, hdrOff int64, fixA bool) {
	h := d.Bytes(hdrOff, hdrOff+92)
	if len(h) < 92 {
		return
	}
	if fixA {
		arrLBA := binary.LittleEndian.Uint64(h[72:80])
		cnt := binary.LittleEndian.Uint32(h[80:84])
		es := binary.LittleEndian.Uint32(h[84:88])
		total := uint64(cnt) * uint64(es)
		if total <= 1<<22 && arrLBA < uint64(d.Size())/uint64(lss) {
			arr := d.Bytes(int64(arrLBA)*int64(lss), int64(arrLBA)*int64(lss)+int64(total))
			if uint64(len(arr)) == total {
				binary.LittleEndian.PutUint32(h[88:92], crc32.ChecksumIEEE(arr))
			}
		}
	}
	h[16], h[17], h[18], h[19] = 0, 0, 0, 0
	binary.LittleEndian.PutUint32(h[16:20], crc32.ChecksumIEEE(h[:92]))
	d.Poke(hdrOff, h)
}

func applyFault(base *dev.Device, s *tableSpec, f c15Fault) *dev.Device {
	lss := s.lss()
	size := s.diskSize()
	if f.Truncate != 0 {
		n := f.Truncate
		if n < 0 {
			n = 0
		}
		return dev.FromBytes(base.Bytes(0, n), n)
	}
	d := base.Clone()
	sectors := uint64(size / int64(lss))
	as := int64(gptArraySectors(lss))
	where := map[string]int64{"primary": int64(lss), "backup": int64(sectors-1) * int64(lss), "parray": 2 * int64(lss), "barray": (int64(sectors) - 1 - as) * int64(lss), "lba0": 0}
	touched := map[string]bool{}
	for _, p := range f.Pokes {
		d.Poke(where[p.Where]+int64(p.Off), unhex(p.Hex))
		touched[p.Where] = true
	}
	if s.G != nil && (f.FixHCRC || f.FixACRC) {
		if touched["primary"] || touched["parray"] {
			fixCRC(d, lss, where["primary"], f.FixACRC)
		}
		if touched["backup"] || touched["barray"] {
			fixCRC(d, lss, where["backup"], f.FixACRC)
		}
	}
	return d
}

var allocSample = []metrics.Sample{{Name: "/gc/heap/allocs:bytes"}}

func heapAllocs() uint64 {
	metrics.Read(allocSample)
	return allocSample[0].Value.Uint64()
}

// c15Probe runs the three readers on one image with the full oracle.
func c15Probe(r *hx.Result, d *dev.Device, lss int, what string) (opened bool) {
	size := d.Size()
	bound := uint64(4*size) + 4<<20
	var gt *gpt.Table
	var gerr error
	type outcome struct {
		name string
		f    func()
	}
	var pt partition.Table
	var mt *mbr.Table
	var perr, merr error
	before := heapAllocs()
	start := time.Now()
	fin := hx.WithTimeout(watchdog(), func() {
		for _, o := range []outcome{
			{"gpt.Read", func() { gt, gerr = gpt.Read(d, lss, lss) }},
			{"mbr.Read", func() { mt, merr = mbr.Read(d, lss, lss) }},
			{"partition.Read", func() { pt, perr = partition.Read(d, lss, lss) }},
		} {
			if p, pv, st := hx.Safe(o.f); p {
				r.Fail("read-panic:"+panicKind(pv), "%s: %s panicked: %v [%s]", what, o.name, pv, st)
				return
			}
		}
	})
	if !fin {
		r.Fail("read-hang", "%s: reading the partition table did not finish within %v", what, watchdog())
		return
	}
	if r.Failed() {
		return
	}
	_ = mt
	_ = merr
	if el := time.Since(start); el > 5*time.Second {
		r.Note("slow read: %v for %s", el.Round(time.Second), what)
	}
	if delta := heapAllocs() - before; delta > bound {
		r.Fail("read-alloc", "%s: reading the table allocated %d bytes on a %d-byte device (bound %d)", what, delta, size, bound)
		return
	}
	// any GPT returned must come from CRC-valid data
	for _, cand := range []struct {
		name string
		t    *gpt.Table
		err  error
	}{{"gpt.Read", gt, gerr}, {"partition.Read", asGPT(pt), perr}} {
		if cand.err != nil || cand.t == nil {
			continue
		}
		opened = true
		lba := uint64(1)
		if cand.t.RecoveredFromBackup {
			lba = uint64(size/int64(lss)) - 1
		}
		h, err := indep.ParseGPTHeader(d, lss, lba, size)
		if err != nil || !h.Valid() {
			r.Fail("crc-invalid-accepted", "%s: %s returned a table (fromBackup=%v) but the header/array at LBA %d is not CRC-valid for an independent parser (err=%v, sig=%v hcrc=%v acrc=%v)", what, cand.name, cand.t.RecoveredFromBackup, lba, err, h != nil && h.SignatureOK, h != nil && h.HeaderCRCOK, h != nil && h.ArrayCRCOK)
			return
		}
		if len(h.Entries) != len(cand.t.Partitions) {
			r.Fail("crc-entries-differ", "%s: %s lists %d partitions, the CRC-valid array at LBA %d holds %d", what, cand.name, len(cand.t.Partitions), h.ArrayLBA, len(h.Entries))
			return
		}
		for i, e := range h.Entries {
			p := cand.t.Partitions[i]
			if p.Index != e.Index || p.Start != e.First || p.End != e.Last || !strings.EqualFold(string(p.Type), e.TypeGUID) || !strings.EqualFold(p.GUID, e.GUID) || p.Attributes != e.Attrs {
				r.Fail("crc-entries-differ", "%s: %s partition %d = {%d..%d %s}, CRC-valid array says slot %d {%d..%d %s}", what, cand.name, p.Index, p.Start, p.End, p.Type, e.Index, e.First, e.Last, e.TypeGUID)
				return
			}
		}
	}
	if perr == nil && pt != nil {
		opened = true
	}
	return
}

func panicKind(v any) string {
	s := fmt.Sprint(v)
	switch {
	case strings.Contains(s, "makeslice"):
		return "makeslice"
	case strings.Contains(s, "out of range"):
		return "index"
	case strings.Contains(s, "nil pointer"):
		return "nil"
	case strings.Contains(s, "divide"):
		return "divide"
	}
	return "other"
}

func asGPT(t partition.Table) *gpt.Table {
	g, _ := t.(*gpt.Table)
	return g
}

func execC15(ci any) (r hx.Result) {
	c := ci.(c15Case)
	if c.Random != nil || c.Base == nil {
		r.Class("kind:random-image")
		d := dev.FromBytes(c.Random, int64(len(c.Random)))
		lss := c.RLSS
		if lss == 0 {
			lss = 512
		}
		hx.JournalSub("C15", c)
		opened := c15Probe(&r, d, lss, fmt.Sprintf("random %d-byte image", len(c.Random)))
		r.Sub = 1
		if opened {
			r.SubNT = 1
			r.Nontrivial = true
		}
		return
	}
	s := c.Base
	r.Class("kind:" + s.kind())
	base := dev.New(s.diskSize())
	if err, p, _, _ := writeTable(base, *s); err != nil || p {
		r.Discard = true
		return
	}
	lss := s.lss()
	run := func(f c15Fault) bool {
		one := c
		one.Only = &f
		hx.JournalSub("C15", one)
		d := applyFault(base, s, f)
		r.Sub++
		opened := c15Probe(&r, d, lss, fmt.Sprintf("fault %+v", f))
		if r.Failed() {
			r.ReplayCase = one
			return false
		}
		// non-trivial: corruption after which the header CRC is valid again (so the reader gets past
		// the checksum and reaches the sizing / decoding code), or a truncated device
		_ = opened
		if (f.FixHCRC && len(f.Pokes) > 0) || f.Truncate != 0 {
			r.SubNT++
		}
		return true
	}
	if c.Only != nil {
		run(*c.Only)
		r.Nontrivial = r.SubNT > 0
		return
	}
	// the unmodified base first
	run(c15Fault{})
	if r.Failed() {
		return
	}
	stride := c.Stride
	if stride < 1 {
		stride = 1
	}
	i := 0
	phase := int(c.Seed % uint64(stride))
	emit := func(f c15Fault) bool {
		i++
		if i%stride != phase {
			return true
		}
		return run(f)
	}
	if s.G != nil {
		gptFaults(s.G, emit)
	} else {
		mbrFaults(s.M, emit)
	}
	r.Nontrivial = r.SubNT > 0
	return
}

func init() {
	hx.Register(&hx.Spec{ID: "C15", Gen: genC15, Exec: execC15, New: func() any { return new(c15Case) },
		Rule: "case = valid base image (generated GPT/MBR) or a seeded random image; evaluations = family members run on it: every GPT header field x boundary values x {header CRC recomputed, stale} x {primary, backup, both}, 2-field combinations of (my LBA, array LBA, count, entry size), entry-field corruptions with/without array CRC recomputed, LBA0/MBR slot bytes, truncated devices (quick runs every 4th member, phase from the seed; thorough runs all); non-trivial member = header CRC recomputed after the corruption (so the checksum passes and the sizing/decoding code is reached) or a truncated device; members are distinct by construction within a base"})
}

func TestC15(t *testing.T) { hx.RunProp(t, "C15") }
