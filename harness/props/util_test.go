package props

import (
	"time"

	"verifharness/hx"
)

// watchdog is the per-operation time limit used where a property promises termination.
func watchdog() time.Duration {
	if hx.Thorough() {
		return 60 * time.Second
	}
	return 20 * time.Second
}
