package props

import (
	"github.com/diskfs/go-diskfs/disk"
	"time"

	"verifharness/hx"
)

// watchdog is the per-operation time limit used where a property promises termination.
func watchdog() time.Duration {
	if hx.Thorough() {
		return 60 * time.Second
	}
	return 20 * time.Second
}

// diskHandle wraps *disk.Disk (kept as a type so helpers can grow).
type diskHandle struct{ *disk.Disk }

func hx_Active(k string) bool { return hx.Active(k) }

func hx_Excluded(p, k string) { hx.Excluded(p, k) }
