package props

// C19 — File metadata survives being written into an image.

import (
	"fmt"
	iofs "io/fs"
	"os"
	"strings"
	"testing"
	"time"

	"github.com/diskfs/go-diskfs/filesystem/iso9660"
	"github.com/diskfs/go-diskfs/filesystem/squashfs"
	"pgregory.net/rapid"

	"verifharness/dev"
	"verifharness/hx"
	"verifharness/indep"
	"verifharness/mk"
)

type c19Case struct {
	E4  *e4Case   `json:"ext4,omitempty"`
	FAT *histCase `json:"fat,omitempty"`
	Fin *finCase  `json:"fin,omitempty"`
}

func genC19(t *rapid.T) any {
	c := c19Case{}
	switch rapid.IntRange(0, 3).Draw(t, "part") {
	case 0:
		e := genE4History(t, e4GenOpts{prop: "C19", maxOps: 14, attrs: true})
		c.E4 = &e
	case 1:
		h := genFATHistory(t, fatGenOpts{prop: "C19", maxBytes: 5 << 20, maxOps: 16, attrs: true, noCycles: true, noTwoHands: true})
		c.FAT = &h
	default:
		f := &finCase{Start: 0, Tail: 0}
		if rapid.Bool().Draw(t, "iso") {
			f.FS = "iso9660"
			f.BS = 2048
			f.Iso = mk.IsoOpts{RockRidge: true, Joliet: rapid.IntRange(0, 3).Draw(t, "joliet") == 0}
			f.Tree = genTree(t, treeOpts{maxEntries: 16, maxDepth: 5, unit: 2048, names: "iso", symlinks: true, meta: true})
			for i := range f.Tree {
				if f.Tree[i].Kind == mk.KLink {
					f.Tree[i].Target = slNormal(f.Tree[i].Target)
				}
			}
			f.Tree = rrSafeTree("C19", dedupeTree(f.Tree))
		} else {
			f.FS = "squashfs"
			f.BS = rapid.SampledFrom([]int64{4096, 131072}).Draw(t, "sqbs")
			f.Sq = genSqOpts(t)
			f.Tree = sqSafeTree("C19", dedupeTree(genTree(t, treeOpts{maxEntries: 16, maxDepth: 5, unit: 4096, names: "posix", symlinks: true, meta: true})))
			if rapid.IntRange(0, 2).Draw(t, "longLinks") == 0 {
				// a few symlinks with targets of kilobytes in the root directory: their inodes are cut by the 8 KiB
				// metadata-block boundary of the inode table at positions that a small tree never reaches
				used := map[string]bool{}
				for _, e := range f.Tree {
					used[e.Path] = true
				}
				for i := 0; i < rapid.IntRange(2, 4).Draw(t, "nLongLinks"); i++ {
					p := fmt.Sprintf("long-link-%d", i)
					if used[p] {
						continue
					}
					ln := rapid.SampledFrom([]int{2500, 4000, 4095, 3000}).Draw(t, "longLinkLen")
					f.Tree = append(f.Tree, mk.Entry{Path: p, Kind: mk.KLink, Target: strings.Repeat(string(rune('a'+i)), ln)})
				}
			}
		}
		f.Size = 8 << 20
		c.Fin = f
	}
	return c
}

func execC19(ci any) (r hx.Result) {
	c := ci.(c19Case)
	switch {
	case c.E4 != nil:
		r.Class("part:ext4")
		x := &e4Run{c: *c.E4, r: &r, doModel: true, doFrame: true}
		x.run()
		if x.specialMeta {
			r.Nontrivial = true
		}
	case c.FAT != nil:
		r.Class("part:fat")
		os.Setenv("SOURCE_DATE_EPOCH", "1000000000")
		defer os.Unsetenv("SOURCE_DATE_EPOCH")
		x := &fatRun{c: *c.FAT, r: &r, doModel: true, attrs: true}
		x.run()
		if !r.Failed() && !r.Discard && x.fs != nil {
			x.step = len(c.FAT.Ops)
			x.opName = "metadata after reopen"
			x.checkFATMeta("after re-opening the image")
		}
		for _, op := range c.FAT.Ops {
			if op.K == "chtimes" && (op.Off%2 == 1 || op.Off > 2147483647) || op.K == "attr" {
				r.Nontrivial = true
			}
		}
	case c.Fin != nil:
		execC19Fin(c.Fin, &r)
	}
	return
}

func execC19Fin(f *finCase, r *hx.Result) {
	r.Class("part:" + f.FS)
	d := dev.New(f.Size)
	var err error
	fin := hx.WithTimeout(6*watchdog(), func() {
		if p, pv, st := hx.Safe(func() {
			if f.FS == "iso9660" {
				err = mk.BuildISO(d, f.Size, 0, f.BS, f.Tree, f.Iso)
			} else {
				err = mk.BuildSquashfs(d, f.Size, 0, f.BS, f.Tree, f.Sq)
			}
		}); p {
			r.Fail("finalize-panic", "Finalize panicked: %v [%s]", pv, st)
		}
	})
	if !fin {
		r.Fail("finalize-hang", "Finalize did not return")
	}
	if r.Failed() {
		return
	}
	if err != nil {
		r.Discard = true
		r.Note("finalize refused: %s", firstWords(err.Error(), 8))
		return
	}
	type seen struct {
		mode  os.FileMode
		uid   uint32
		gid   uint32
		mtime time.Time
		tgt   string
		hasID bool
	}
	got := map[string]seen{}
	fin = hx.WithTimeout(6*watchdog(), func() {
		if p, pv, st := hx.Safe(func() {
			var fsys iofs.ReadDirFS
			if f.FS == "iso9660" {
				var x *iso9660.FileSystem
				x, err = iso9660.Read(d, f.Size, 0, f.BS)
				fsys = x
			} else {
				var x *squashfs.FileSystem
				x, err = squashfs.Read(d, f.Size, 0, f.BS)
				fsys = x
			}
			if err != nil {
				return
			}
			err = walkLimited(fsys, ".", 0, func(p string, de iofs.DirEntry, werr error) error {
				if werr != nil {
					return fmt.Errorf("walk %q: %w", clip(p), werr)
				}
				info, ierr := de.Info()
				if ierr != nil {
					return ierr
				}
				s := seen{mode: info.Mode(), mtime: info.ModTime()}
				switch st := info.Sys().(type) {
				case *iso9660.StatT:
					s.uid, s.gid, s.tgt, s.hasID = st.UID, st.GID, st.LinkTarget, st.RockRidge
				case *squashfs.StatT:
					s.uid, s.gid, s.tgt, s.hasID = st.UID, st.GID, st.LinkTarget, true
				}
				if info.Mode()&iofs.ModeSymlink != 0 {
					if rl, ok := de.(interface{ ReadLink() (string, bool) }); ok {
						s.tgt, _ = rl.ReadLink()
					} else if rl, ok := de.(interface{ Readlink() (string, error) }); ok {
						s.tgt, _ = rl.Readlink()
					}
				}
				got[p] = s
				return nil
			})
		}); p {
			r.Fail("read-panic", "reading the image panicked: %v [%s]", pv, st)
		}
	})
	if !fin {
		r.Fail("read-hang", "reading the image did not finish")
	}
	if r.Failed() {
		return
	}
	if err != nil {
		r.Fail("read-error", "re-opening the finalized %s image fails: %v", f.FS, err)
		return
	}
	for _, e := range f.Tree {
		g, ok := got[e.Path]
		if !ok {
			r.Fail("missing", "%q is missing from the %s image", clip(e.Path), f.FS)
			return
		}
		isDir, isLink := g.mode.IsDir(), g.mode&iofs.ModeSymlink != 0
		if isDir != (e.Kind == mk.KDir) || isLink != (e.Kind == mk.KLink) {
			r.Fail("kind-confused", "%q: source kind %d, image reports dir=%v symlink=%v (mode %v)", clip(e.Path), e.Kind, isDir, isLink, g.mode)
			return
		}
		if e.Kind == mk.KLink && g.tgt != e.Target {
			r.Fail("link-target", "%q: link target %q, source %q", clip(e.Path), clip(g.tgt), clip(e.Target))
			return
		}
		if e.Mode != 0 && e.Kind != mk.KLink {
			r.Nontrivial = r.Nontrivial || e.Mode&0o7000 != 0
			if modeBits(g.mode) != e.Mode {
				r.Fail("mode:"+f.FS, "%q: mode bits %04o in the image, %04o on the workspace file", clip(e.Path), modeBits(g.mode), e.Mode)
				return
			}
		}
		if (e.UID != 0 || e.GID != 0) && g.hasID {
			r.Nontrivial = r.Nontrivial || e.UID > 65535 || e.GID > 65535
			if g.uid != uint32(e.UID) || g.gid != uint32(e.GID) {
				r.Fail("owner:"+f.FS, "%q: uid/gid %d/%d in the image, %d/%d on the workspace file", clip(e.Path), g.uid, g.gid, e.UID, e.GID)
				return
			}
		}
		if e.Mtime != 0 && e.Kind != mk.KLink {
			r.Nontrivial = r.Nontrivial || e.Mtime > 2147483647
			if g.mtime.Unix() != e.Mtime {
				r.Fail("mtime:"+f.FS, "%q: modification time %v in the image, %v on the workspace file", clip(e.Path), g.mtime.UTC(), time.Unix(e.Mtime, 0).UTC())
				return
			}
		}
	} // the same attributes as an independent reader of the format sees them (what is stored, not what the
	// library's reader makes of it): squashfs inode header fields, Rock Ridge PX / TF / SL fields
	type raw struct {
		mode  uint32
		uid   uint32
		gid   uint32
		mtime int64
		hasT  bool
		tgt   string
		link  bool
		dir   bool
	}
	rawOf := map[string]raw{}
	if f.FS == "squashfs" {
		img, ierr := indep.ReadSquashfs(d, 0, f.Size)
		if ierr != nil {
			r.Fail("indep-read", "the squashfs image cannot be read by an independent reader: %v", ierr)
			return
		}
		for p, n := range img.Nodes {
			rawOf[p] = raw{mode: uint32(n.Mode), uid: n.UID, gid: n.GID, mtime: int64(n.MTime), hasT: true, tgt: n.Target, link: n.Kind == 'l', dir: n.Kind == 'd'}
		}
	} else if f.Iso.RockRidge && f.BS == 2048 {
		rep := indep.WalkISO(d, 0, f.Size)
		for _, x := range rep.RRFiles {
			if !x.RR.HasPX {
				continue
			}
			rawOf[x.Path] = raw{mode: x.RR.Mode & 0o7777, uid: x.RR.UID, gid: x.RR.GID, mtime: x.RR.MTime, hasT: x.RR.HasMTime, tgt: x.RR.Link, link: x.RR.IsLink, dir: x.Dir}
		}
	} else {
		return
	}
	for _, e := range f.Tree {
		g, ok := rawOf[e.Path]
		if !ok {
			r.Fail("indep-missing", "%q is not found by an independent reader of the %s image", clip(e.Path), f.FS)
			return
		}
		if g.dir != (e.Kind == mk.KDir) || g.link != (e.Kind == mk.KLink) {
			r.Fail("kind-confused", "%q: source kind %d, stored as dir=%v symlink=%v (independent reader)", clip(e.Path), e.Kind, g.dir, g.link)
			return
		}
		if e.Kind == mk.KLink && g.tgt != e.Target {
			r.Fail("link-target", "%q: stored link target %q (independent reader), source %q", clip(e.Path), clip(g.tgt), clip(e.Target))
			return
		}
		if e.Mode != 0 && e.Kind != mk.KLink && g.mode&0o7777 != e.Mode {
			r.Fail("mode:"+f.FS, "%q: stored mode bits %04o (independent reader), %04o on the workspace file", clip(e.Path), g.mode&0o7777, e.Mode)
			return
		}
		if (e.UID != 0 || e.GID != 0) && (g.uid != uint32(e.UID) || g.gid != uint32(e.GID)) {
			r.Fail("owner:"+f.FS, "%q: stored uid/gid %d/%d (independent reader), %d/%d on the workspace file", clip(e.Path), g.uid, g.gid, e.UID, e.GID)
			return
		}
		if e.Mtime != 0 && e.Kind != mk.KLink && g.hasT {
			wantT := e.Mtime
			if f.FS == "squashfs" {
				wantT = int64(uint32(e.Mtime)) // 32-bit seconds
			}
			if g.mtime != wantT {
				r.Fail("mtime:"+f.FS, "%q: stored modification time %d (independent reader), %d on the workspace file", clip(e.Path), g.mtime, wantT)
				return
			}
		}
	}
}

func init() {
	hx.Register(&hx.Spec{ID: "C19", Gen: genC19, Exec: execC19, New: func() any { return new(c19Case) },
		Rule: "case = ext4 history rich in Chmod (all 12 bits) / Chown (16- and 32-bit ids, -1) / Chtimes (1901..2446, nanoseconds) / symlinks with per-call frame check, or FAT history with Chtimes (1980..2107) and hidden/system/read-only/archive setters checked on the raw directory entries after reopen, or a workspace tree with modes/owners/mtimes/symlinks finalized to squashfs or Rock Ridge ISO; oracle = Stat/ReadLink/getters/raw words equal what was set, nothing else changes, kinds never confused; non-trivial = a value outside the small range (special mode bits, id > 65535, time outside 1970..2038 or odd seconds, long link) ; distinct by hash of the case JSON"})
}

func TestC19(t *testing.T) { hx.RunProp(t, "C19") }
