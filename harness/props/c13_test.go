package props

// C13 — Partition contents are streamed to and from exactly the partition.

import (
	"bytes"
	"errors"
	"fmt"
	"github.com/diskfs/go-diskfs/partition"
	"io"
	"testing"

	diskfs "github.com/diskfs/go-diskfs"
	"github.com/diskfs/go-diskfs/disk"
	"github.com/diskfs/go-diskfs/partition/part"
	dsync "github.com/diskfs/go-diskfs/sync"
	"pgregory.net/rapid"

	"verifharness/dev"
	"verifharness/hx"
)

type c13Part struct {
	Start uint64 `json:"start"` // sectors
	Size  uint64 `json:"size"`  // sectors
}

type c13Case struct {
	Kind    string    `json:"kind"` // gpt | mbr
	LSS     int       `json:"lss"`
	PSS     int       `json:"pss"`
	Sectors uint64    `json:"sectors"`
	Parts   []c13Part `json:"parts"`
	Op      string    `json:"op"`     // write | read | copy
	Target  int       `json:"target"` // 1-based partition index
	From    int       `json:"from,omitempty"`
	Delta   int64     `json:"delta"`  // write: reader length = partition size + Delta
	Pieces  []int     `json:"pieces"` // chunk sizes the reader hands out, cyclic
	ZeroNil bool      `json:"zeronil,omitempty"`
	EOFWith bool      `json:"eofwith,omitempty"` // last piece returned together with io.EOF
	Big     bool      `json:"big,omitempty"`     // >= 4 GiB partition streamed against the synthetic pattern (thorough)
	Cached  bool      `json:"cached,omitempty"`  // the table is applied with Disk.Partition and used as it is, without reading it back
}

type pieceReader struct {
	data    func(off int64, p []byte) // fills p with stream bytes at off
	n       int64
	pos     int64
	pieces  []int
	i       int
	zeroNil bool
	eofWith bool
	flip    bool
}

func (r *pieceReader) Read(p []byte) (int, error) {
	if r.pos >= r.n {
		return 0, io.EOF
	}
	if r.zeroNil {
		r.flip = !r.flip
		if r.flip {
			return 0, nil
		}
	}
	c := len(p)
	if len(r.pieces) > 0 {
		k := r.pieces[r.i%len(r.pieces)]
		r.i++
		if k < c {
			c = k
		}
	}
	if int64(c) > r.n-r.pos {
		c = int(r.n - r.pos)
	}
	if c == 0 && len(p) > 0 {
		c = 1
	}
	r.data(r.pos, p[:c])
	r.pos += int64(c)
	if r.pos >= r.n && r.eofWith {
		return c, io.EOF
	}
	return c, nil
}

func genC13(t *rapid.T) any {
	c := c13Case{}
	c.Kind = rapid.SampledFrom([]string{"gpt", "gpt", "mbr"}).Draw(t, "kind")
	c.LSS = 512
	if c.Kind == "gpt" && rapid.IntRange(0, 2).Draw(t, "lss4k") == 0 {
		c.LSS = 4096
	}
	c.PSS = c.LSS
	if c.Kind == "gpt" && rapid.IntRange(0, 2).Draw(t, "pssMode") == 0 {
		c.PSS = c.LSS * 8
	}
	// where the partitions live
	region := rapid.IntRange(0, 3).Draw(t, "region")
	var base uint64
	switch region {
	case 0:
		base = 2048
	case 1:
		base = uint64(rapid.IntRange(40, 3000).Draw(t, "baseSmall"))
	case 2:
		base = (1<<32)/uint64(c.LSS) - uint64(rapid.IntRange(0, 40).Draw(t, "below4G")) // straddles the 4 GiB byte offset
	case 3:
		base = (1<<32)/uint64(c.LSS)*3 + uint64(rapid.IntRange(1, 5000).Draw(t, "above4G"))
	}
	n := rapid.IntRange(1, 3).Draw(t, "nparts")
	cur := base
	for i := 0; i < n; i++ {
		sz := uint64(rapid.SampledFrom([]int{1, 2, 3, 7, 8, 9, 15, 16, 17, 64, 100}).Draw(t, "psize"))
		gap := uint64(rapid.IntRange(0, 9).Draw(t, "gap"))
		c.Parts = append(c.Parts, c13Part{Start: cur + gap, Size: sz})
		cur += gap + sz
	}
	c.Sectors = cur + 40 + gptArraySectors(c.LSS)
	c.Op = rapid.SampledFrom([]string{"write", "write", "read", "copy"}).Draw(t, "op")
	c.Target = rapid.IntRange(1, n).Draw(t, "target")
	if c.Op == "copy" {
		if n == 1 {
			c.Op = "write"
		} else {
			c.From = rapid.IntRange(1, n).Draw(t, "from")
			if c.From == c.Target {
				c.From = c.Target%n + 1
			}
		}
	}
	switch rapid.IntRange(0, 4).Draw(t, "deltaMode") {
	case 0, 1:
		c.Delta = 0
	case 2:
		c.Delta = -int64(rapid.IntRange(1, 600).Draw(t, "short"))
	case 3:
		c.Delta = int64(rapid.IntRange(1, 600).Draw(t, "long"))
	case 4:
		c.Delta = int64(rapid.SampledFrom([]int{-1, 1, -512, 512, -4096, 4096}).Draw(t, "deltaB"))
	}
	c.Pieces = rapid.SliceOfN(rapid.SampledFrom([]int{1, 3, 100, 511, 512, 513, 1000, 4095, 4096, 5000, 1 << 20}), 0, 4).Draw(t, "pieces")
	c.ZeroNil = rapid.IntRange(0, 4).Draw(t, "zeronil") == 0
	c.EOFWith = rapid.Bool().Draw(t, "eofwith")
	c.Cached = rapid.IntRange(0, 2).Draw(t, "cachedTable") == 0
	return c
}

func (c c13Case) spec() tableSpec {
	if c.Kind == "gpt" {
		g := &gptSpec{LSS: c.LSS, Sectors: c.Sectors, GUID: "11111111-2222-3333-4444-555555555555", PMBR: true}
		for i, p := range c.Parts {
			g.Parts = append(g.Parts, gptPart{Index: i + 1, Start: p.Start, End: p.Start + p.Size - 1, Type: knownGPTTypes[1], GUID: fmt.Sprintf("AAAAAAAA-0000-0000-0000-%012d", i+1)})
		}
		return tableSpec{G: g}
	}
	m := &mbrSpec{LSS: c.LSS, Sectors: c.Sectors}
	for _, p := range c.Parts {
		m.Parts = append(m.Parts, mbrPart{Type: 0x83, Start: uint32(p.Start), Size: uint32(p.Size)})
	}
	return tableSpec{M: m}
}

func streamByte(off int64) byte { return byte(off*131+off>>8*17+off>>16) | 1 }

func execC13(ci any) (r hx.Result) {
	c := ci.(c13Case)
	r.Class("kind:" + c.Kind)
	r.Class("op:" + c.Op)
	s := c.spec()
	size := s.diskSize()
	d := dev.New(size)
	lss := int64(c.LSS)
	tp := c.Parts[c.Target-1]
	pStart, pSize := int64(tp.Start)*lss, int64(tp.Size)*lss
	if c.Kind == "mbr" && tp.Start+tp.Size > 1<<32 {
		r.Discard = true
		return
	}
	if c.Big {
		r.Class("big-stream")
		d.AddPattern(pStart, pStart+pSize)
	}
	if s.G != nil && c.PSS != c.LSS {
		s.G.PSS = c.PSS
	}
	if !c.Cached {
		if err, p, pv, st := writeTable(d, s); err != nil || p {
			if p {
				r.Fail("table-write-panic", "Table.Write panicked: %v [%s]", pv, st)
				return
			}
			r.Discard = true
			return
		}
	}
	if pStart >= 1<<32 || pStart+pSize > 1<<32 {
		r.Class("geometry:beyond-4GiB")
		r.Nontrivial = true
	}
	if c.PSS != c.LSS {
		r.Class("pss!=lss")
		r.Nontrivial = true
	}
	if c.Op == "write" && c.Delta != 0 {
		r.Nontrivial = true
	}
	var opts []diskfs.OpenOpt
	if c.LSS == 4096 {
		opts = append(opts, diskfs.WithSectorSize(diskfs.SectorSize4k))
	}
	dk, err := diskfs.OpenBackend(d, opts...)
	if err != nil {
		r.Fail("disk-open", "OpenBackend: %v", err)
		return
	}
	dk.PhysicalBlocksize = int64(c.PSS)
	if c.Cached {
		// the caller's own table object, as Disk.Partition keeps it: the usual create-partition-write flow
		r.Class("table:cached")
		var tbl partition.Table
		if s.G != nil {
			tbl = s.G.table()
		} else {
			tbl = s.M.table()
		}
		var perr error
		if p, pv, st := hx.Safe(func() { perr = dk.Partition(tbl) }); p {
			r.Fail("table-write-panic", "Disk.Partition panicked: %v [%s]", pv, st)
			return
		}
		if perr != nil {
			r.Discard = true
			return
		}
	} else if _, err := dk.GetPartitionTable(); err != nil {
		r.Fail("disk-table", "GetPartitionTable on the freshly written table: %v", err)
		return
	}
	// fill every partition with known bytes (a function of the device offset) unless synthetic
	partBytes := func(p c13Part) []byte {
		b := make([]byte, int64(p.Size)*lss)
		o := int64(p.Start) * lss
		for i := range b {
			b[i] = byte((o+int64(i))*7+(o+int64(i))>>9) | 0x80
		}
		return b
	}
	if !c.Big {
		for _, p := range c.Parts {
			d.Poke(int64(p.Start)*lss, partBytes(p))
		}
	}
	// guards: everything outside the target partition
	d.ResetLog()
	d.Guard([]dev.Interval{{Lo: pStart, Hi: pStart + pSize}})
	before := map[int][32]byte{}
	if !c.Big {
		for i, p := range c.Parts {
			before[i] = d.SHA256(int64(p.Start)*lss, int64(p.Start+p.Size)*lss)
		}
	}
	headHash := d.SHA256(0, minI64(size, 40*lss))

	switch c.Op {
	case "write":
		n := pSize + c.Delta
		if n < 0 {
			n = 0
		}
		var fill func(off int64, p []byte)
		if c.Big {
			fill = func(off int64, p []byte) {
				for i := range p {
					p[i] = dev.Pat(pStart + off + int64(i))
				}
			}
		} else {
			fill = func(off int64, p []byte) {
				for i := range p {
					p[i] = streamByte(off + int64(i))
				}
			}
		}
		rd := &pieceReader{data: fill, n: n, pieces: c.Pieces, zeroNil: c.ZeroNil, eofWith: c.EOFWith}
		var wn int64
		var werr error
		fin := hx.WithTimeout(10*watchdog(), func() {
			if p, pv, st := hx.Safe(func() { wn, werr = dk.WritePartitionContents(c.Target, rd) }); p {
				r.Fail("write-panic", "WritePartitionContents panicked: %v [%s]", pv, st)
			}
		})
		if !fin {
			r.Fail("write-hang", "WritePartitionContents did not return")
		}
		if r.Failed() {
			return
		}
		if esc := d.Escapes(); len(esc) > 0 {
			r.Fail("write-escape", "WritePartitionContents(%d) wrote outside the partition [%d,%d): WriteAt(off=%d,len=%d)", c.Target, pStart, pStart+pSize, esc[0].Off, esc[0].Len)
			return
		}
		for i, p := range c.Parts {
			if i != c.Target-1 && !c.Big {
				if d.SHA256(int64(p.Start)*lss, int64(p.Start+p.Size)*lss) != before[i] {
					r.Fail("write-neighbour", "WritePartitionContents(%d) changed partition %d", c.Target, i+1)
					return
				}
			}
		}
		if d.SHA256(0, minI64(size, 40*lss)) != headHash {
			r.Fail("write-table-damaged", "WritePartitionContents(%d) changed the partition table area", c.Target)
			return
		}
		switch {
		case c.Delta == 0:
			if werr != nil {
				r.Fail("write-exact-error", "exactly %d bytes supplied for a %d-byte partition but WritePartitionContents failed: %v", n, pSize, werr)
				return
			}
			if wn != pSize {
				r.Fail("write-count", "WritePartitionContents returned %d, partition size %d", wn, pSize)
				return
			}
			if c.Big {
				if off := d.OutsideDiff([]dev.Interval{{Lo: 0, Hi: pStart}, {Lo: pStart + pSize, Hi: size}}); off >= 0 {
					r.Fail("write-content", "device byte %d differs from the stream after a full-size write", off)
					return
				}
			} else {
				want := make([]byte, pSize)
				fill(0, want)
				got := d.Bytes(pStart, pStart+pSize)
				if !bytes.Equal(got, want) {
					k := 0
					for k < len(got) && got[k] == want[k] {
						k++
					}
					r.Fail("write-content", "partition bytes differ from the stream at partition offset %d (device offset %d)", k, pStart+int64(k))
					return
				}
			}
		case c.Delta < 0:
			if werr == nil {
				r.Fail("write-short-accepted", "only %d of %d bytes supplied but WritePartitionContents succeeded", n, pSize)
				return
			}
			var ierr *part.IncompletePartitionWriteError
			if !errors.As(werr, &ierr) {
				r.Fail("write-short-errtype", "short input (%d of %d bytes): error is not an IncompletePartitionWriteError: %v", n, pSize, werr)
				return
			}
		default:
			if werr == nil {
				r.Fail("write-long-accepted", "%d bytes supplied for a %d-byte partition but WritePartitionContents succeeded", n, pSize)
				return
			}
		}
	case "read":
		var buf bytes.Buffer
		var rn int64
		var rerr error
		cw := &countWriter{w: &buf, limit: pSize + 1<<20}
		if c.Big {
			cw.w = &patVerifier{base: pStart}
		}
		fin := hx.WithTimeout(10*watchdog(), func() {
			if p, pv, st := hx.Safe(func() { rn, rerr = dk.ReadPartitionContents(c.Target, cw) }); p {
				r.Fail("read-panic", "ReadPartitionContents panicked: %v [%s]", pv, st)
			}
		})
		if !fin {
			r.Fail("read-hang", "ReadPartitionContents did not return")
		}
		if r.Failed() {
			return
		}
		if rerr != nil {
			r.Fail("read-error", "ReadPartitionContents(%d): %v", c.Target, rerr)
			return
		}
		if d.NWrites() != 0 {
			r.Fail("read-writes", "ReadPartitionContents wrote to the device")
			return
		}
		if cw.n != pSize || rn != pSize {
			r.Fail("read-count", "ReadPartitionContents(%d) delivered %d bytes (returned %d) for a %d-byte partition (lss=%d pss=%d)", c.Target, cw.n, rn, pSize, c.LSS, c.PSS)
			return
		}
		if pv, ok := cw.w.(*patVerifier); ok && pv.bad >= 0 {
			r.Fail("read-content", "ReadPartitionContents(%d) delivered a wrong byte at partition offset %d", c.Target, pv.bad)
			return
		}
		if !c.Big && !bytes.Equal(buf.Bytes(), partBytes(tp)) {
			r.Fail("read-content", "ReadPartitionContents(%d) delivered bytes that differ from the partition's", c.Target)
			return
		}
	case "copy":
		fp := c.Parts[c.From-1]
		var cerr error
		fin := hx.WithTimeout(10*watchdog(), func() {
			if p, pv, st := hx.Safe(func() { cerr = dsync.CopyPartitionRaw(dk, c.From, c.Target) }); p {
				r.Fail("copy-panic", "CopyPartitionRaw panicked: %v [%s]", pv, st)
			}
		})
		if !fin {
			r.Fail("copy-hang", "CopyPartitionRaw(%d,%d) did not return (source %d sectors, target %d sectors)", c.From, c.Target, fp.Size, tp.Size)
		}
		if r.Failed() {
			return
		}
		if esc := d.Escapes(); len(esc) > 0 {
			r.Fail("copy-escape", "CopyPartitionRaw wrote outside the target partition: WriteAt(off=%d,len=%d)", esc[0].Off, esc[0].Len)
			return
		}
		for i, p := range c.Parts {
			if i != c.Target-1 && d.SHA256(int64(p.Start)*lss, int64(p.Start+p.Size)*lss) != before[i] {
				r.Fail("copy-neighbour", "CopyPartitionRaw(%d,%d) changed partition %d", c.From, c.Target, i+1)
				return
			}
		}
		if cerr == nil {
			src := partBytes(fp)
			if fp.Size > tp.Size {
				r.Fail("copy-too-small-accepted", "CopyPartitionRaw succeeded although the target (%d sectors) is smaller than the source (%d)", tp.Size, fp.Size)
				return
			}
			got := d.Bytes(pStart, pStart+int64(len(src)))
			if !bytes.Equal(got, src) {
				r.Fail("copy-content", "CopyPartitionRaw(%d,%d) returned nil but the target's leading bytes differ from the source", c.From, c.Target)
				return
			}
			r.Nontrivial = true
		} else if fp.Size <= tp.Size {
			r.Fail("copy-error", "CopyPartitionRaw(%d,%d) failed although the target (%d sectors) can hold the source (%d): %v", c.From, c.Target, tp.Size, fp.Size, cerr)
			return
		}
	}
	return
}

// patVerifier checks a stream against the device's synthetic pattern without storing it.
type patVerifier struct {
	base int64
	n    int64
	bad  int64
	init bool
}

func (v *patVerifier) Write(p []byte) (int, error) {
	if !v.init {
		v.bad = -1
		v.init = true
	}
	for i, b := range p {
		if b != dev.Pat(v.base+v.n+int64(i)) && v.bad < 0 {
			v.bad = v.n + int64(i)
		}
	}
	v.n += int64(len(p))
	return len(p), nil
}

type countWriter struct {
	w     io.Writer
	n     int64
	limit int64
}

func (c *countWriter) Write(p []byte) (int, error) {
	c.n += int64(len(p))
	if c.n > c.limit {
		return 0, errors.New("countWriter: far more data than the partition holds")
	}
	return c.w.Write(p)
}

func minI64(a, b int64) int64 {
	if a < b {
		return a
	}
	return b
}

func init() {
	hx.Register(&hx.Spec{ID: "C13", Gen: genC13, Exec: execC13, New: func() any { return new(c13Case) },
		Rule: "case = (GPT|MBR, logical/physical sector size, partitions near the start / straddling / beyond 4 GiB, operation write|read|copy, reader length vs partition size, piece sizes, (0,nil) and (n,EOF) reader styles); non-trivial = geometry touching or beyond byte 2^32, or physical != logical sector size, or reader length != partition size, or a successful raw copy; distinct by hash of the case JSON"})
}

func TestC13(t *testing.T) { hx.RunProp(t, "C13") }

// TestC13Big streams a >= 4 GiB partition (thorough only): the partition's range is a synthetic
// pattern region of the sparse device, so nothing is stored and every written byte is verified.
func TestC13Big(t *testing.T) {
	if !hx.Thorough() {
		t.Skip("thorough only")
	}
	i := 0
	kinds := []c13Case{
		{Kind: "gpt", LSS: 512, PSS: 512, Sectors: 9000000 + 100, Parts: []c13Part{{Start: 2048, Size: 8388608 + 8}}, Op: "write", Target: 1, Pieces: []int{1 << 20}, Big: true},
		{Kind: "gpt", LSS: 512, PSS: 4096, Sectors: 9000000 + 100, Parts: []c13Part{{Start: 2048, Size: 8388608 + 8}}, Op: "read", Target: 1, Big: true},
	}
	hx.RunEnum(t, "C13", func() (any, bool) {
		if i >= len(kinds) {
			return nil, false
		}
		i++
		return kinds[i-1], true
	})
}

var _ = disk.Disk{}
