package props

// C06 — An ISO9660 image contains exactly the tree it was built from.

import (
	"bytes"
	"fmt"
	iofs "io/fs"
	"path"
	"regexp"
	"sort"
	"strings"
	"testing"

	"github.com/diskfs/go-diskfs/filesystem/iso9660"
	"pgregory.net/rapid"

	"verifharness/dev"
	"verifharness/hx"
	"verifharness/indep"
	"verifharness/mk"
)

var isoBad = regexp.MustCompile("[^A-Z0-9_]")

// isoLevel1 is the documented mapping for plain ISO names: split at the first dot,
// upper-case, everything outside [A-Z0-9_] becomes '_', 8 + 3 truncation; directories keep
// the base name only.
func isoLevel1(name string, dir bool) string {
	parts := strings.SplitN(name, ".", 2)
	short := isoBad.ReplaceAllString(strings.ToUpper(parts[0]), "_")
	ext := ""
	if len(parts) > 1 {
		ext = isoBad.ReplaceAllString(strings.ToUpper(parts[1]), "_")
	}
	if len(ext) > 3 {
		ext = ext[:3]
	}
	if len(short) > 8 {
		short = short[:8]
	}
	if dir || ext == "" {
		return short
	}
	return short + "." + ext
}

func genC06(t *rapid.T) any {
	f := &finCase{FS: "iso9660"}
	f.BS = rapid.SampledFrom([]int64{2048, 2048, 2048, 4096, 8192}).Draw(t, "isobs")
	if f.BS != 2048 && hx.Active("KF-ISO-BLOCKSIZE") {
		hx.Excluded("C06", "KF-ISO-BLOCKSIZE")
		f.BS = 2048
	}
	f.Iso = genIsoOpts(t)
	f.Start = rapid.SampledFrom([]int64{0, 0, 1 << 20}).Draw(t, "start")
	f.Tail = rapid.SampledFrom([]int64{0, 8192}).Draw(t, "tail")
	maxDepth := 7
	if rapid.IntRange(0, 5).Draw(t, "deep") == 0 {
		f.Iso.Deep = true
		maxDepth = 11
	}
	o := treeOpts{maxEntries: 24, maxDepth: maxDepth, unit: int(f.BS), names: "iso", bigDirs: true, symlinks: f.Iso.RockRidge, maxFile: 4 * int(f.BS)}
	if hx.Thorough() && rapid.IntRange(0, 9).Draw(t, "bigFile") == 0 {
		o.maxFile = 3 << 20
	}
	f.Tree = genTree(t, o)
	if rapid.IntRange(0, 3).Draw(t, "chain") == 0 {
		// a deep chain of directories
		depth := rapid.IntRange(3, maxDepth).Draw(t, "chainDepth")
		p := ""
		for i := 0; i < depth; i++ {
			p = path.Join(p, fmt.Sprintf("lvl%d", i))
			f.Tree = append(f.Tree, mk.Entry{Path: p, Kind: mk.KDir})
		}
		f.Tree = append(f.Tree, mk.Entry{Path: path.Join(p, "deep.txt"), Kind: mk.KFile, Data: mk.Content{Seed: 77, Len: 333}})
	}
	if rapid.IntRange(0, 7).Draw(t, "manyDirs") == 0 {
		// dozens of directories with long names: the path tables (one record per directory, the Joliet one with
		// two bytes per character) grow past one sector
		nd := rapid.SampledFrom([]int{35, 60, 100}).Draw(t, "manyDirsN")
		nl := rapid.SampledFrom([]int{8, 30, 40}).Draw(t, "manyDirsNameLen")
		for i := 0; i < nd; i++ {
			dn := fmt.Sprintf("directory-%03d-%s", i, strings.Repeat("x", nl))
			f.Tree = append(f.Tree, mk.Entry{Path: dn, Kind: mk.KDir})
			if i%7 == 0 {
				f.Tree = append(f.Tree, mk.Entry{Path: dn + "/inside.txt", Kind: mk.KFile, Data: mk.Content{Seed: uint32(900 + i), Len: 10 + i}})
			}
		}
	}
	f.Tree = dedupeTree(f.Tree)
	for i := range f.Tree {
		if f.Tree[i].Kind == mk.KLink {
			f.Tree[i].Target = slNormal(f.Tree[i].Target)
		}
	}
	if f.Iso.RockRidge {
		f.Tree = rrSafeTree("C06", f.Tree)
	}
	payload := int64(0)
	for _, e := range f.Tree {
		payload += (int64(e.Data.Len)/f.BS + 2) * f.BS
	}
	f.Size = (payload*2 + 2<<20) / f.BS * f.BS
	return *f
}

// rrSafeTree drops the entries that lie in the region of known finding KF-ISO-RR-CONTINUATION
// (and everything below a dropped directory) while that finding is active.
func rrSafeTree(prop string, es []mk.Entry) []mk.Entry {
	cont, dot := hx.Active("KF-ISO-RR-CONTINUATION"), hx.Active("KF-ISO-RR-DOTNAME")
	if !cont && !dot {
		return es
	}
	dropped := map[string]bool{}
	var out []mk.Entry
	sorted := append([]mk.Entry(nil), es...)
	mk.SortEntries(sorted)
	for _, e := range sorted {
		why := ""
		if cont && (len(path.Base(e.Path)) > 100 || (e.Kind == mk.KLink && len(path.Base(e.Path))+len(e.Target) > 100)) {
			why = "KF-ISO-RR-CONTINUATION"
		}
		if dot && strings.HasPrefix(path.Base(e.Path), ".") {
			why = "KF-ISO-RR-DOTNAME"
		}
		bad := why != ""
		for d := path.Dir(e.Path); d != "." && d != "/"; d = path.Dir(d) {
			if dropped[d] {
				bad = true
			}
		}
		if bad {
			dropped[e.Path] = true
			if why != "" {
				hx.Excluded(prop, why)
			}
			continue
		}
		out = append(out, e)
	}
	return out
}

func dedupeTree(es []mk.Entry) []mk.Entry {
	seen := map[string]bool{}
	var out []mk.Entry
	for _, e := range es {
		if !seen[e.Path] {
			seen[e.Path] = true
			out = append(out, e)
		}
	}
	return out
}

type seenNode struct {
	dir  bool
	link bool
	data []byte
	tgt  string
	size int64
}

func execC06(ci any) (r hx.Result) {
	f := ci.(finCase)
	total := f.Start + f.Size + f.Tail
	d := dev.New(total)
	mode := "plain"
	switch {
	case f.Iso.RockRidge && f.Iso.Joliet:
		mode = "rr+joliet"
	case f.Iso.RockRidge:
		mode = "rr"
	case f.Iso.Joliet:
		mode = "joliet"
	}
	r.Class("mode:" + mode)
	r.Class(fmt.Sprintf("bs:%d", f.BS))
	st := treeStatsOf(f.Tree, int(f.BS))
	var err error
	fin := hx.WithTimeout(4*watchdog(), func() {
		if p, pv, stk := hx.Safe(func() { err = mk.BuildISO(d, f.Size, f.Start, f.BS, f.Tree, f.Iso) }); p {
			r.Fail("finalize-panic:"+panicKind(pv), "Create/Finalize panicked: %v [%s]", pv, stk)
		}
	})
	if !fin {
		r.Fail("finalize-hang", "Finalize did not return")
	}
	if r.Failed() {
		return
	}
	if err != nil {
		r.Discard = true
		r.Class("finalize-refused")
		r.Note("Finalize refused: %s", firstWords(err.Error(), 9))
		return
	}
	// expected view
	exact := f.Iso.RockRidge || f.Iso.Joliet
	type want struct {
		e mk.Entry
	}
	wantByPath := map[string]mk.Entry{}
	collision := false
	if exact {
		for _, e := range f.Tree {
			wantByPath[e.Path] = e
		}
	} else {
		// map every component; detect collisions per directory
		mapped := map[string]string{"": ""}
		es := append([]mk.Entry(nil), f.Tree...)
		mk.SortEntries(es)
		used := map[string]bool{}
		for _, e := range es {
			dir := path.Dir(e.Path)
			if dir == "." {
				dir = ""
			}
			md, ok := mapped[dir]
			if !ok {
				collision = true
				continue
			}
			mp := path.Join(md, isoLevel1(path.Base(e.Path), e.Kind == mk.KDir))
			if used[mp] {
				collision = true
				continue
			}
			used[mp] = true
			mapped[e.Path] = mp
			wantByPath[mp] = e
		}
	}
	if collision {
		r.Class("name-collision")
	}
	if (st.depth >= 2 && st.maxDirSize*40 > int(f.BS)) || collision || mode != "plain" || f.BS != 2048 || f.Start != 0 {
		r.Nontrivial = true
	}
	// (1) the library's own reader
	var fsys *iso9660.FileSystem
	got := map[string]*seenNode{}
	fin = hx.WithTimeout(4*watchdog(), func() {
		if p, pv, stk := hx.Safe(func() {
			fsys, err = iso9660.Read(d, f.Size, f.Start, f.BS)
			if err != nil {
				return
			}
			err = walkLimited(fsys, ".", 0, func(p string, de iofs.DirEntry, werr error) error {
				if werr != nil {
					return fmt.Errorf("walk %q: %w", p, werr)
				}
				if p == "." {
					return nil
				}
				n := &seenNode{dir: de.IsDir()}
				info, ierr := de.Info()
				if ierr != nil {
					return fmt.Errorf("info %q: %w", p, ierr)
				}
				n.size = info.Size()
				if info.Mode()&iofs.ModeSymlink != 0 {
					n.link = true
					if rl, ok := de.(interface{ ReadLink() (string, bool) }); ok {
						n.tgt, _ = rl.ReadLink()
					}
				} else if !n.dir {
					b, rerr := fsys.ReadFile(p)
					if rerr != nil {
						return fmt.Errorf("ReadFile %q: %w", p, rerr)
					}
					n.data = b
				}
				got[p] = n
				return nil
			})
		}); p {
			r.Fail("read-panic:"+panicKind(pv), "reading the finalized image panicked: %v [%s]", pv, stk)
		}
	})
	if !fin {
		r.Fail("read-hang", "reading the finalized image did not finish")
	}
	if r.Failed() {
		return
	}
	if err != nil {
		r.Fail("read-error:"+mode, "opening/walking the finalized image (%s, bs %d, start %d) fails: %v", mode, f.BS, f.Start, err)
		return
	}
	if !collision {
		var missing, extra []string
		for p := range wantByPath {
			if got[p] == nil {
				missing = append(missing, p)
			}
		}
		for p := range got {
			if _, ok := wantByPath[p]; !ok {
				extra = append(extra, p)
			}
		}
		sort.Strings(missing)
		sort.Strings(extra)
		if len(missing)+len(extra) > 0 {
			r.Fail("tree:"+mode, "image tree differs from the source (%s): missing %s, unexpected %s", mode, shortList(missing), shortList(extra))
			return
		}
		for p, e := range wantByPath {
			g := got[p]
			switch e.Kind {
			case mk.KDir:
				if !g.dir {
					r.Fail("kind:"+mode, "%q is a directory in the source but not in the image", p)
					return
				}
			case mk.KLink:
				if !g.link {
					r.Fail("kind:"+mode, "%q is a symlink in the source but mode in the image says otherwise", p)
					return
				}
				if g.tgt != e.Target {
					r.Fail("symlink:"+mode, "%q: link target %q, source %q", p, clip(g.tgt), clip(e.Target))
					return
				}
			default:
				if g.dir || g.link {
					r.Fail("kind:"+mode, "%q is a regular file in the source but dir=%v link=%v in the image", p, g.dir, g.link)
					return
				}
				if wantData := e.Data.Bytes(); !bytes.Equal(g.data, wantData) {
					r.Fail("content:"+mode, "%q: content differs (%s)", p, diffAt(g.data, wantData))
					return
				}
			}
		}
	} else {
		// names are not predictable under a collision: demand a bijection on (dir, kind, size) only
		if len(got) != len(f.Tree) {
			r.Fail("tree-count:"+mode, "source has %d entries with colliding 8.3 names, the image lists %d", len(f.Tree), len(got))
			return
		}
	}
	// (2) independent walker over the primary volume descriptor
	rep := indep.WalkISO(d, f.Start, f.Size)
	for _, jd := range rep.JolietDiag {
		r.Note("joliet tree diagnostic: %s", firstWords(jd, 4))
	}
	if len(rep.Problems) > 0 {
		r.Fail("indep:"+firstWords(rep.Problems[0], 3), "independent ISO9660 reader: %s", strings.Join(rep.Problems, "; "))
		return
	}
	if rep.BlockSize != int(f.BS) {
		r.Fail("indep-blocksize", "PVD logical block size %d, filesystem created with %d", rep.BlockSize, f.BS)
		return
	}
	// the primary tree always carries level-1 names
	prim := map[string]mk.Entry{}
	primCollision := false
	{
		mapped := map[string]string{"": ""}
		es := append([]mk.Entry(nil), f.Tree...)
		mk.SortEntries(es)
		used := map[string]bool{}
		for _, e := range es {
			dir := path.Dir(e.Path)
			if dir == "." {
				dir = ""
			}
			md, ok := mapped[dir]
			if !ok {
				primCollision = true
				continue
			}
			mp := path.Join(md, isoLevel1(path.Base(e.Path), e.Kind == mk.KDir))
			if used[mp] {
				primCollision = true
				continue
			}
			used[mp] = true
			mapped[e.Path] = mp
			prim[mp] = e
		}
	}
	if !primCollision && !f.Iso.Deep {
		byPath := map[string]indep.ISOFile{}
		for _, x := range rep.Files {
			byPath[x.Path] = x
		}
		for p, e := range prim {
			if e.Kind == mk.KLink {
				continue
			}
			x, ok := byPath[p]
			if !ok {
				// Rock Ridge relocates directories deeper than 8 levels; those are looked up by the library reader only
				if f.Iso.RockRidge && strings.Count(p, "/") >= 7 {
					continue
				}
				r.Fail("indep-missing", "independent reader does not find %q (source %q) in the primary tree", p, e.Path)
				return
			}
			if x.Dir != (e.Kind == mk.KDir) {
				r.Fail("indep-kind", "independent reader: %q dir=%v, source kind %d", p, x.Dir, e.Kind)
				return
			}
			if e.Kind == mk.KFile {
				b, err := indep.ReadISOFile(d, f.Start, rep.BlockSize, x)
				if err != nil {
					r.Fail("indep-read", "independent reader cannot read %q: %v", p, err)
					return
				}
				if wantData := e.Data.Bytes(); !bytes.Equal(b, wantData) {
					r.Fail("indep-content", "independent reader: %q content differs (%s)", p, diffAt(b, wantData))
					return
				}
			}
		}
	}
	// (2b) the Joliet tree as an independent reader decodes it (UCS-2 names). The statement promises an
	// independent reader the *primary* tree only, so a difference here is a diagnostic, not a verdict. (On the
	// pinned tree the directory records of the Joliet tree point to the primary tree's directory extents below the
	// first level - the library's own reader goes through the path table and never follows them.)
	if f.Iso.Joliet && rep.HasJoliet {
		byJ := map[string]bool{}
		for _, x := range rep.JolietFiles {
			byJ[x.Path] = true
		}
		diff := 0
		for _, e := range f.Tree {
			if !byJ[e.Path] && e.Kind != mk.KLink {
				diff++
			}
		}
		if diff > 0 {
			r.Class("joliet-independent:differs")
			r.Note("an independent reader of the Joliet tree does not find %d of the source paths (outside the statement: it names the primary tree)", diff)
		} else {
			r.Class("joliet-independent:agrees")
		}
	}
	// (3) the Rock Ridge view of an independent reader: exact names, kinds, sizes, contents and link targets
	if f.Iso.RockRidge {
		for _, dg := range rep.RRDiag {
			r.Note("rock ridge diagnostic: %s", firstWords(dg, 8))
		}
		if !rep.HasRR {
			r.Fail("indep-rr-absent", "the image was finalized with RockRidge but an independent reader finds no SUSP SP entry in the root directory")
			return
		}
		byRR := map[string]indep.ISOFile{}
		for _, x := range rep.RRFiles {
			if _, dup := byRR[x.Path]; dup {
				r.Fail("indep-rr-dup", "independent Rock Ridge reader: %q is listed twice", clip(x.Path))
				return
			}
			byRR[x.Path] = x
		}
		var missing, extra []string
		want := map[string]mk.Entry{}
		for _, e := range f.Tree {
			want[e.Path] = e
			if _, ok := byRR[e.Path]; !ok {
				missing = append(missing, e.Path)
			}
		}
		for p := range byRR {
			if _, ok := want[p]; !ok {
				extra = append(extra, p)
			}
		}
		sort.Strings(missing)
		sort.Strings(extra)
		if len(missing)+len(extra) > 0 {
			r.Fail("indep-rr-tree", "the tree an independent Rock Ridge reader finds differs from the source: missing %s, unexpected %s (diagnostics: %s)", shortList(missing), shortList(extra), shortList(rep.RRDiag))
			return
		}
		for p, e := range want {
			x := byRR[p]
			switch e.Kind {
			case mk.KDir:
				if !x.Dir {
					r.Fail("indep-rr-kind", "independent Rock Ridge reader: %q is not a directory", clip(p))
					return
				}
			case mk.KLink:
				if !x.RR.IsLink {
					r.Fail("indep-rr-kind", "independent Rock Ridge reader: %q has no SL field, the source is a symlink", clip(p))
					return
				}
				if x.RR.Link != e.Target {
					r.Fail("indep-rr-symlink", "independent Rock Ridge reader: %q -> %q, source %q", clip(p), clip(x.RR.Link), clip(e.Target))
					return
				}
			default:
				if x.Dir || x.RR.IsLink {
					r.Fail("indep-rr-kind", "independent Rock Ridge reader: %q is a regular file in the source, dir=%v link=%v in the image", clip(p), x.Dir, x.RR.IsLink)
					return
				}
				b, err := indep.ReadISOFile(d, f.Start, rep.BlockSize, x)
				if err != nil {
					r.Fail("indep-read", "independent reader cannot read %q: %v", clip(p), err)
					return
				}
				if wantData := e.Data.Bytes(); !bytes.Equal(b, wantData) {
					r.Fail("indep-rr-content", "independent Rock Ridge reader: %q content differs (%s)", clip(p), diffAt(b, wantData))
					return
				}
			}
		}
	}
	return
}

func init() {
	hx.Register(&hx.Spec{ID: "C06", Gen: func(t *rapid.T) any { return genC06(t) }, Exec: execC06, New: func() any { return new(finCase) },
		Rule: "case = generated workspace tree (depth, multi-sector directories, boundary file sizes, 8.3 collisions, long / mixed-case / non-ASCII names, symlinks under Rock Ridge) x {plain, RockRidge, Joliet, both} x block size 2048/4096/8192 x start 0 / 1 MiB x DeepDirectories; oracles: the library's reader (exact names under RR/Joliet, documented level-1 mapping otherwise, byte-identical contents) and an independent PVD/directory-record walker (same files, extents inside the image, no overlap); non-trivial = >= 2 levels with a multi-sector directory, or a name collision, or a non-default option / block size / start; distinct by hash of the case JSON"})
}

func TestC06(t *testing.T) { hx.RunProp(t, "C06") }

// walkLimited is fs.WalkDir with a depth limit, so that a reader that lists a directory as its
// own descendant produces an error instead of unbounded recursion.
func walkLimited(fsys iofs.ReadDirFS, dir string, depth int, fn func(p string, de iofs.DirEntry, err error) error) error {
	if depth > 40 {
		return fmt.Errorf("directory nesting deeper than 40 at %q: the reader lists a directory below itself", clip(dir))
	}
	ents, err := fsys.ReadDir(dir)
	if err != nil {
		return fn(dir, nil, err)
	}
	for _, e := range ents {
		p := e.Name()
		if dir != "." {
			p = dir + "/" + e.Name()
		}
		if err := fn(p, e, nil); err != nil {
			return err
		}
		if e.IsDir() {
			if err := walkLimited(fsys, p, depth+1, fn); err != nil {
				return err
			}
		}
	}
	return nil
}

// slNormal brings a symlink target into the form a Rock Ridge SL record can represent:
// components separated by single slashes, no trailing slash (a leading slash is kept).
func slNormal(t string) string {
	abs := strings.HasPrefix(t, "/")
	var comps []string
	for _, c := range strings.Split(t, "/") {
		if c != "" {
			comps = append(comps, c)
		}
	}
	out := strings.Join(comps, "/")
	if abs {
		out = "/" + out
	}
	if out == "" {
		out = "."
	}
	return out
}
