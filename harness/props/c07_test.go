package props

// C07 — A squashfs image contains exactly the tree it was built from.

import (
	"bytes"
	"encoding/binary"
	"fmt"
	iofs "io/fs"
	"os"
	"sort"
	"strconv"
	"strings"
	"testing"

	"github.com/diskfs/go-diskfs/filesystem/squashfs"
	"pgregory.net/rapid"

	"verifharness/dev"
	"verifharness/hx"
	"verifharness/indep"
	"verifharness/mk"
)

type sqVariant struct {
	BS    int64     `json:"bs"`
	Opts  mk.SqOpts `json:"opts"`
	Cache int       `json:"cache"` // -1: leave default
}

type sqCase struct {
	Size  int64       `json:"size"`
	Start int64       `json:"start"`
	Tail  int64       `json:"tail"`
	Tree  []mk.Entry  `json:"tree"`
	Vars  []sqVariant `json:"vars"` // the same tree under different options / block sizes / cache sizes
}

func genSqVariant(t *rapid.T) sqVariant {
	v := sqVariant{}
	v.BS = rapid.SampledFrom([]int64{4096, 4096, 8192, 65536, 131072, 1 << 20}).Draw(t, "sqbs")
	v.Opts = genSqOpts(t)
	v.Cache = rapid.SampledFrom([]int{-1, -1, 0, 1, int(v.BS), 3 * int(v.BS), 1 << 20}).Draw(t, "cache")
	return v
}

func genC07(t *rapid.T) any {
	c := sqCase{}
	c.Start = rapid.SampledFrom([]int64{0, 0, 4096, 1 << 20}).Draw(t, "start")
	c.Tail = rapid.SampledFrom([]int64{0, 8192}).Draw(t, "tail")
	unit := rapid.SampledFrom([]int{4096, 4096, 8192}).Draw(t, "unit")
	o := treeOpts{maxEntries: 22, maxDepth: 6, unit: unit, names: "posix", bigDirs: true, symlinks: true, maxFile: 5 * unit}
	if rapid.IntRange(0, 4).Draw(t, "manyTails") == 0 {
		o.maxEntries = 60
		o.maxFile = unit / 2
	}
	if hx.Thorough() && rapid.IntRange(0, 9).Draw(t, "bigFile") == 0 {
		o.maxFile = 3 << 20
	}
	c.Tree = sqSafeTree("C07", dedupeTree(genTree(t, o)))
	if rapid.IntRange(0, 11).Draw(t, "flatMany") == 0 {
		// hundreds of files in the root directory, each with a tail of more than half a block: more than 512
		// fragment blocks (the fragment table needs a second metadata block), an inode table and a root listing
		// of several metadata blocks. No subdirectories, so the tree stays outside KF-SQ-DIRTABLE.
		c.Tree = nil
		counts := []int{300, 520}
		if hx.Thorough() {
			counts = append(counts, 700, 1100)
		}
		nf := rapid.SampledFrom(counts).Draw(t, "flatN")
		for i := 0; i < nf; i++ {
			sz := unit/2 + 1 + (i*37)%(unit/2-1)
			if i%9 == 0 {
				sz += unit * (1 + i%3)
			}
			c.Tree = append(c.Tree, mk.Entry{Path: fmt.Sprintf("f%04d", i), Kind: mk.KFile, Data: mk.Content{Seed: uint32(i + 1), Len: sz, Style: []int{0, 2, 3}[i%3]}})
		}
		if rapid.Bool().Draw(t, "flatLink") {
			c.Tree = append(c.Tree, mk.Entry{Path: "a-link", Kind: mk.KLink, Target: strings.Repeat("t", rapid.IntRange(1, 140).Draw(t, "flatLinkLen"))})
		}
	}
	flat := len(c.Tree) >= 300
	n := rapid.IntRange(1, 2).Draw(t, "variants")
	for i := 0; i < n; i++ {
		c.Vars = append(c.Vars, genSqVariant(t))
	}
	if flat {
		c.Vars = c.Vars[:1]
		c.Vars[0].BS = int64(unit) // one tail per fragment block
	}
	payload := int64(0)
	for _, e := range c.Tree {
		payload += int64(e.Data.Len) + 1024
	}
	c.Size = (payload*2 + 4<<20) / 4096 * 4096
	return c
}

type sqSuper struct {
	magic                                                 uint32
	inodes                                                uint32
	blockSize                                             uint32
	frags                                                 uint32
	comp                                                  uint16
	blockLog                                              uint16
	flags                                                 uint16
	idCount                                               uint16
	major, minor                                          uint16
	root                                                  uint64
	bytesUsed                                             uint64
	idTab, xattrTab, inodeTab, dirTab, fragTab, exportTab uint64
}

func parseSqSuper(b []byte) sqSuper {
	le := binary.LittleEndian
	return sqSuper{magic: le.Uint32(b[0:4]), inodes: le.Uint32(b[4:8]), blockSize: le.Uint32(b[12:16]), frags: le.Uint32(b[16:20]), comp: le.Uint16(b[20:22]),
		blockLog: le.Uint16(b[22:24]), flags: le.Uint16(b[24:26]), idCount: le.Uint16(b[26:28]), major: le.Uint16(b[28:30]), minor: le.Uint16(b[30:32]),
		root: le.Uint64(b[32:40]), bytesUsed: le.Uint64(b[40:48]), idTab: le.Uint64(b[48:56]), xattrTab: le.Uint64(b[56:64]), inodeTab: le.Uint64(b[64:72]),
		dirTab: le.Uint64(b[72:80]), fragTab: le.Uint64(b[80:88]), exportTab: le.Uint64(b[88:96])}
}

func execC07(ci any) (r hx.Result) {
	c := ci.(sqCase)
	st := treeStatsOf(c.Tree, 4096)
	want := map[string]mk.Entry{}
	for _, e := range c.Tree {
		want[e.Path] = e
	}
	for vi, v := range c.Vars {
		label := fmt.Sprintf("variant %d (bs %d, %+v, cache %d)", vi, v.BS, v.Opts, v.Cache)
		r.Class("comp:" + v.Opts.Comp)
		if v.Opts.NoFragments {
			r.Class("nofragments")
		}
		if v.Cache >= 0 {
			r.Class(fmt.Sprintf("cache<=%d", roundCache(v.Cache)))
		}
		total := c.Start + c.Size + c.Tail
		d := dev.New(total)
		if c.Start > 0 {
			d.AddPattern(0, c.Start)
		}
		var err error
		fin := hx.WithTimeout(6*watchdog(), func() {
			if p, pv, stk := hx.Safe(func() { err = mk.BuildSquashfs(d, c.Size, c.Start, v.BS, c.Tree, v.Opts) }); p {
				r.Fail("finalize-panic:"+panicKind(pv), "%s: Create/Finalize panicked: %v [%s]", label, pv, stk)
			}
		})
		if !fin {
			r.Fail("finalize-hang", "%s: Finalize did not return", label)
		}
		if r.Failed() {
			return
		}
		if err != nil {
			r.Discard = true
			r.Class("finalize-refused")
			r.Note("Finalize refused: %s", firstWords(err.Error(), 9))
			return
		}
		multi := false
		for _, e := range c.Tree {
			if e.Kind == mk.KFile && int64(e.Data.Len) >= 2*v.BS && int64(e.Data.Len)%v.BS != 0 {
				multi = true
			}
		}
		if (multi || st.maxDirSize > 100 || st.links > 0) && (v.Opts.Comp != "gzip" || v.Opts.NoFragments || v.Opts.NoCompData || v.Opts.NoCompInodes || v.Opts.NoPad || v.BS != 131072 || v.Cache >= 0 || c.Start != 0) {
			r.Nontrivial = true
		}
		// (3) superblock describes exactly the bytes written
		maxEnd := int64(0)
		for _, w := range d.Writes() {
			if e := w.Off + int64(w.Len) - c.Start; e > maxEnd {
				maxEnd = e
			}
		}
		sb := parseSqSuper(d.Bytes(c.Start, c.Start+96))
		switch {
		case sb.magic != 0x73717368:
			r.Fail("sb-magic", "%s: superblock magic %#x", label, sb.magic)
		case sb.major != 4 || sb.minor != 0:
			r.Fail("sb-version", "%s: superblock version %d.%d", label, sb.major, sb.minor)
		case int64(sb.blockSize) != v.BS || uint32(1)<<sb.blockLog != sb.blockSize:
			r.Fail("sb-blocksize", "%s: superblock block size %d (log %d), created with %d", label, sb.blockSize, sb.blockLog, v.BS)
		case int(sb.inodes) != len(c.Tree)+1:
			r.Fail("sb-inodes", "%s: superblock inode count %d, tree has %d nodes + root", label, sb.inodes, len(c.Tree))
		case int64(sb.bytesUsed) > maxEnd:
			r.Fail("sb-bytes-used", "%s: superblock bytes_used %d but the last byte written is at %d", label, sb.bytesUsed, maxEnd)
		case maxEnd != int64(sb.bytesUsed) && (maxEnd%4096 != 0 || maxEnd-int64(sb.bytesUsed) >= 4096):
			// the bytes written are either exactly bytes_used or bytes_used padded to the next 4 KiB boundary
			r.Fail("sb-bytes-used", "%s: bytes_used %d does not describe the %d bytes written (neither equal nor its 4 KiB padding)", label, sb.bytesUsed, maxEnd)
		}
		if !v.Opts.NoPad && maxEnd == int64(sb.bytesUsed) && maxEnd%4096 != 0 {
			r.Note("image is not padded to 4 KiB although NoPad is false (the option has no effect)")
		}
		if r.Failed() {
			return
		}
		tabs := []struct {
			name string
			v    uint64
		}{{"inode table", sb.inodeTab}, {"directory table", sb.dirTab}, {"fragment table", sb.fragTab}, {"export table", sb.exportTab}, {"id table", sb.idTab}, {"xattr table", sb.xattrTab}}
		prev := uint64(96)
		for _, tb := range tabs {
			if tb.v == ^uint64(0) {
				continue
			}
			if tb.v == 0 {
				// the format marks an absent table with all ones; the library writes 0 for a table it
				// leaves out (export table under NonExportable). Not a size field: diagnostic only.
				r.Note("superblock: %s pointer is 0 for an absent table (format says 0xffffffffffffffff)", tb.name)
				continue
			}
			if tb.v < prev || tb.v >= sb.bytesUsed {
				r.Fail("sb-tables", "%s: %s pointer %d is not inside [%d, bytes_used=%d) in layout order", label, tb.name, tb.v, prev, sb.bytesUsed)
				return
			}
			prev = tb.v
		}
		// (1a) round trip through the harness's own squashfs reader (shares no code with the library)
		if sqIndepCompare(&r, label, d, c, want) {
			return
		}
		// (1b) round trip through the library's reader
		got := map[string]*seenNode{}
		fin = hx.WithTimeout(6*watchdog(), func() {
			if p, pv, stk := hx.Safe(func() {
				var fsys *squashfs.FileSystem
				fsys, err = squashfs.Read(d, c.Size, c.Start, v.BS)
				if err != nil {
					return
				}
				if v.Cache >= 0 {
					fsys.SetCacheSize(v.Cache)
				}
				err = walkLimited(fsys, ".", 0, func(p string, de iofs.DirEntry, werr error) error {
					if werr != nil {
						return fmt.Errorf("walk %q: %w", clip(p), werr)
					}
					n := &seenNode{dir: de.IsDir()}
					info, ierr := de.Info()
					if ierr != nil {
						return fmt.Errorf("info %q: %w", clip(p), ierr)
					}
					n.size = info.Size()
					if info.Mode()&iofs.ModeSymlink != 0 {
						n.link = true
						if rl, ok := de.(interface{ Readlink() (string, error) }); ok {
							n.tgt, ierr = rl.Readlink()
							if ierr != nil {
								return fmt.Errorf("Readlink %q: %w", clip(p), ierr)
							}
						}
					} else if !n.dir {
						b, rerr := fsys.ReadFile(p)
						if rerr != nil {
							return fmt.Errorf("ReadFile %q: %w", clip(p), rerr)
						}
						n.data = b
					}
					got[p] = n
					return nil
				})
			}); p {
				r.Fail("read-panic:"+panicKind(pv), "%s: reading the finalized image panicked: %v [%s]", label, pv, stk)
			}
		})
		if !fin {
			r.Fail("read-hang", "%s: reading the finalized image did not finish", label)
		}
		if r.Failed() {
			return
		}
		if err != nil {
			r.Fail("read-error", "%s: opening/walking the finalized image fails: %v", label, err)
			return
		}
		var missing, extra []string
		for p := range want {
			if got[p] == nil {
				missing = append(missing, p)
			}
		}
		for p := range got {
			if _, ok := want[p]; !ok {
				extra = append(extra, p)
			}
		}
		sort.Strings(missing)
		sort.Strings(extra)
		if len(missing)+len(extra) > 0 {
			r.Fail("tree", "%s: image tree differs from the source: missing %s, unexpected %s", label, shortList(missing), shortList(extra))
			return
		}
		for p, e := range want {
			g := got[p]
			switch e.Kind {
			case mk.KDir:
				if !g.dir {
					r.Fail("kind", "%s: %q is a directory in the source, not in the image", label, clip(p))
					return
				}
			case mk.KLink:
				if !g.link {
					r.Fail("kind", "%s: %q is a symlink in the source, the image says otherwise", label, clip(p))
					return
				}
				if g.tgt != e.Target {
					r.Fail("symlink", "%s: %q: link target %q, source %q", label, clip(p), clip(g.tgt), clip(e.Target))
					return
				}
			default:
				if g.dir || g.link {
					r.Fail("kind", "%s: %q is a regular file in the source but dir=%v link=%v in the image", label, clip(p), g.dir, g.link)
					return
				}
				if wd := e.Data.Bytes(); !bytes.Equal(g.data, wd) {
					r.Fail("content", "%s: %q (%d bytes, style %d): content differs (%s)", label, clip(p), e.Data.Len, e.Data.Style, diffAt(g.data, wd))
					return
				}
			}
		}
	}
	return
}

// sqIndepCompare parses the finalized image with the independent reader and compares it with the source tree.
// It returns true when a violation was recorded.
func sqIndepCompare(r *hx.Result, label string, d *dev.Device, c sqCase, want map[string]mk.Entry) bool {
	var img *indep.SqImage
	var err error
	fin := hx.WithTimeout(6*watchdog(), func() {
		if p, pv, stk := hx.Safe(func() { img, err = indep.ReadSquashfs(d, c.Start, c.Size) }); p {
			err = fmt.Errorf("independent reader panicked: %v [%s]", pv, stk)
		}
	})
	if !fin {
		r.Fail("indep-hang", "%s: the independent squashfs reader did not finish", label)
		return true
	}
	if err != nil {
		r.Fail("indep-read", "%s: the image cannot be read by an independent squashfs reader: %v", label, err)
		return true
	}
	if img.LZ4Frames > 0 {
		r.Note("lz4 blocks are stored as lz4 frames, not as raw lz4 blocks as mksquashfs writes them (interoperability, outside the statement)")
	}
	var missing, extra []string
	for p := range want {
		if img.Nodes[p] == nil {
			missing = append(missing, p)
		}
	}
	for p := range img.Nodes {
		if _, ok := want[p]; !ok && p != "." {
			extra = append(extra, p)
		}
	}
	sort.Strings(missing)
	sort.Strings(extra)
	if len(missing)+len(extra) > 0 {
		r.Fail("indep-tree", "%s: the tree an independent reader finds in the image differs from the source: missing %s, unexpected %s", label, shortList(missing), shortList(extra))
		return true
	}
	if int(img.Inodes) != len(img.Nodes) {
		r.Fail("sb-inodes", "%s: superblock inode count %d, the image holds %d inodes", label, img.Inodes, len(img.Nodes))
		return true
	}
	for p, e := range want {
		g := img.Nodes[p]
		wantKind := map[int]byte{mk.KDir: 'd', mk.KLink: 'l', mk.KFile: 'f'}[e.Kind]
		if g.Kind != wantKind {
			r.Fail("indep-kind", "%s: %q is kind %c in the image (independent reader), %c in the source", label, clip(p), g.Kind, wantKind)
			return true
		}
		switch e.Kind {
		case mk.KLink:
			if g.Target != e.Target {
				r.Fail("indep-symlink", "%s: %q: link target %q in the image (independent reader), source %q", label, clip(p), clip(g.Target), clip(e.Target))
				return true
			}
		case mk.KFile:
			if wd := e.Data.Bytes(); !bytes.Equal(g.Data, wd) {
				r.Fail("indep-content", "%s: %q (%d bytes, style %d): content in the image (independent reader) differs (%s)", label, clip(p), e.Data.Len, e.Data.Style, diffAt(g.Data, wd))
				return true
			}
		}
	}
	return false
}

func roundCache(c int) int {
	switch {
	case c == 0:
		return 0
	case c <= 1:
		return 1
	case c <= 1<<20:
		return 1 << 20
	}
	return c
}

func init() {
	hx.Register(&hx.Spec{ID: "C07", Gen: genC07, Exec: execC07, New: func() any { return new(sqCase) },
		Rule: "case = generated workspace tree (empty dirs, directories with hundreds of entries, file sizes 0 / < block / k*block / k*block+tail, zero runs, incompressible and text data, relative and absolute symlinks) finalized under 1-2 option variants (compressor none/gzip/xz/lz4/zstd, NoFragments, NoCompress*, NoPad, NonSparse, NonExportable, block size 4 KiB..1 MiB, cache size 0/1/block/default) at start 0 or non-zero; every variant must read back equal to the source (so variants agree with each other) and its superblock must describe exactly the bytes written; non-trivial = a multi-block file with a tail, or a directory with > 100 entries, or a symlink, under a non-default option; distinct by hash of the case JSON"})
}

func TestC07(t *testing.T) { hx.RunProp(t, "C07") }

// TestC07Slide enumerates the alignment of inodes against the 8 KiB metadata-block boundary: a symlink whose
// target grows byte by byte is the first inode of the table and pushes every following inode along, so that
// over the sweep every inode layout (basic/extended file with and without block list, symlink, directory)
// is cut by the boundary at every one of its byte positions.
func TestC07Slide(t *testing.T) {
	shard, _ := strconv.Atoi(os.Getenv("VERIF_SHARD_INDEX"))
	nshard, _ := strconv.Atoi(os.Getenv("VERIF_NSHARDS"))
	if nshard < 1 {
		nshard = 1
	}
	maxL := 96
	comps := []string{"none", "gzip"}
	if hx.Thorough() {
		maxL = 160
		comps = []string{"none", "gzip", "zstd"}
	}
	idx := -1
	l, ci := 0, 0
	coarse := []int{128, 256, 512, 1024, 1536, 2048, 3072, 4000}
	// inodes longer than a metadata block: a file of thousands of blocks has a block list of more than 8 KiB,
	// so its inode covers two or three metadata blocks and the inodes behind it start in a later block
	bigBlocks := []int{1900, 2100, 4200}
	bi := 0
	hx.RunEnum(t, "C07", func() (any, bool) {
		for bi < len(bigBlocks) {
			nb := bigBlocks[bi]
			bi++
			idx++
			if idx%nshard != shard {
				continue
			}
			c := sqCase{Size: 64 << 20}
			for i := 0; i < 145; i++ {
				c.Tree = append(c.Tree, mk.Entry{Path: fmt.Sprintf("a%03d", i), Kind: mk.KFile, Data: mk.Content{Seed: uint32(i + 1), Len: 10 + i%7, Style: 2}})
			}
			c.Tree = append(c.Tree, mk.Entry{Path: "big", Kind: mk.KFile, Data: mk.Content{Seed: 77, Len: nb*4096 + 5, Style: 3}})
			for i := 0; i < 5; i++ {
				c.Tree = append(c.Tree, mk.Entry{Path: fmt.Sprintf("z%03d", i), Kind: mk.KFile, Data: mk.Content{Seed: uint32(300 + i), Len: 100 + i, Style: 0}})
			}
			c.Vars = []sqVariant{{BS: 4096, Opts: mk.SqOpts{Comp: "gzip", Level: 1}, Cache: -1}}
			return c, true
		}
		for {
			l++
			if l > maxL+len(coarse) {
				l = 1
				ci++
			}
			if ci >= len(comps) {
				return nil, false
			}
			idx++
			if idx%nshard != shard {
				continue
			}
			bs := 4096
			c := sqCase{Size: 8 << 20, Tail: 0}
			tl := l
			if l > maxL {
				tl = coarse[l-maxL-1] // coarse shifts: move the boundary across the long inodes
			}
			c.Tree = append(c.Tree, mk.Entry{Path: "0-link", Kind: mk.KLink, Target: strings.Repeat("s", tl)})
			for i := 0; i < 170; i++ {
				var sz int
				switch i % 5 {
				case 0:
					sz = 8*bs + 100 + i // eight full blocks and a tail
				case 1:
					sz = 3 * bs // exactly three blocks, no tail
				case 2:
					sz = 17 + i
				case 3:
					sz = 0
				default:
					sz = bs + bs/2
				}
				c.Tree = append(c.Tree, mk.Entry{Path: fmt.Sprintf("f%03d", i), Kind: mk.KFile, Data: mk.Content{Seed: uint32(i + 1), Len: sz, Style: []int{0, 1, 2}[i%3]}})
				if i%40 == 7 {
					// symlinks with targets of kilobytes: inodes much longer than the sweep, so that the boundary
					// also cuts an inode near its start, in its middle and near its end
					c.Tree = append(c.Tree, mk.Entry{Path: fmt.Sprintf("l%03d", i), Kind: mk.KLink, Target: strings.Repeat(string(rune('a'+i%26)), 2500+i*9)})
				}
			}
			o := mk.SqOpts{Comp: comps[ci]}
			if o.Comp == "gzip" {
				o.Level = 6
			}
			c.Vars = []sqVariant{{BS: int64(bs), Opts: o, Cache: -1}}
			return c, true
		}
	})
}

// sqDirTableBytes estimates the size of the squashfs directory table for a tree.
func sqDirTableBytes(es []mk.Entry) int {
	n := 12
	for _, e := range es {
		n += 8 + len(pathBase(e.Path))
		if e.Kind == mk.KDir {
			n += 12
		}
	}
	return n
}

func pathBase(p string) string {
	for i := len(p) - 1; i >= 0; i-- {
		if p[i] == '/' {
			return p[i+1:]
		}
	}
	return p
}

// sqDirStartsOK reports whether every directory listing of the tree starts inside the first metadata block
// of the directory table. The library lays the listings out in pre-order (a directory, then its
// subdirectories in name order), and KF-SQ-DIRTABLE only breaks directories whose listing *starts*
// in a later block, so a table longer than 8 KiB is fine as long as the long listing comes last.
// Sizes are upper bounds (every entry is charged its own share of a header).
func sqDirStartsOK(es []mk.Entry) bool {
	children := map[string][]mk.Entry{}
	for _, e := range es {
		d := ""
		if i := lastSlash(e.Path); i >= 0 {
			d = e.Path[:i]
		}
		children[d] = append(children[d], e)
	}
	pos := 0
	ok := true
	var rec func(dir string)
	rec = func(dir string) {
		if pos > 7600 {
			ok = false
		}
		kids := children[dir]
		sort.Slice(kids, func(i, j int) bool { return kids[i].Path < kids[j].Path })
		n := 12
		for _, k := range kids {
			n += 8 + len(pathBase(k.Path)) + 2
		}
		n += 12 * (len(kids)/32 + 1)
		pos += n
		for _, k := range kids {
			if k.Kind == mk.KDir {
				rec(k.Path)
			}
		}
	}
	rec("")
	return ok
}

func lastSlash(p string) int {
	for i := len(p) - 1; i >= 0; i-- {
		if p[i] == '/' {
			return i
		}
	}
	return -1
}

// sqSafeTree trims a tree out of the region of known finding KF-SQ-DIRTABLE while it is active.
func sqSafeTree(prop string, es []mk.Entry) []mk.Entry {
	if !hx.Active("KF-SQ-DIRTABLE") || sqDirTableBytes(es) <= 6500 || sqDirStartsOK(es) {
		return es
	}
	hx.Excluded(prop, "KF-SQ-DIRTABLE")
	// keep parents before children, drop from the end (deepest / latest first)
	sorted := append([]mk.Entry(nil), es...)
	mk.SortEntries(sorted)
	for len(sorted) > 0 && sqDirTableBytes(sorted) > 6500 {
		sorted = sorted[:len(sorted)-1]
	}
	return sorted
}
