package props

// C03 — Nothing is written outside the byte range a component was given.

import (
	"fmt"
	"testing"

	"pgregory.net/rapid"

	"verifharness/dev"
	"verifharness/hx"
	"verifharness/mk"
)

type finCase struct {
	FS    string     `json:"fs"` // iso9660 | squashfs
	Size  int64      `json:"size"`
	Start int64      `json:"start"`
	Tail  int64      `json:"tail"`
	BS    int64      `json:"bs"`
	Tree  []mk.Entry `json:"tree"`
	Iso   mk.IsoOpts `json:"iso,omitempty"`
	Sq    mk.SqOpts  `json:"sq,omitempty"`
}

type c03Case struct {
	FAT    *histCase `json:"fat,omitempty"`
	Table  *c02Case  `json:"table,omitempty"`
	Stream *c13Case  `json:"stream,omitempty"`
	Fin    *finCase  `json:"fin,omitempty"`
	Ext4   *e4Case   `json:"ext4,omitempty"`
}

func genIsoOpts(t *rapid.T) mk.IsoOpts {
	o := mk.IsoOpts{}
	switch rapid.IntRange(0, 3).Draw(t, "isoMode") {
	case 1:
		o.RockRidge = true
	case 2:
		o.Joliet = true
	case 3:
		o.RockRidge, o.Joliet = true, true
	}
	if rapid.IntRange(0, 3).Draw(t, "volid") == 0 {
		o.VolID = rapid.SampledFrom([]string{"MYVOLUME", "A", "LONG_VOLUME_IDENTIFIER_32_CHARS__"}).Draw(t, "volidV")
	}
	return o
}

func genSqOpts(t *rapid.T) mk.SqOpts {
	o := mk.SqOpts{Comp: rapid.SampledFrom([]string{"none", "gzip", "gzip", "xz", "lz4", "zstd"}).Draw(t, "comp")}
	if o.Comp == "gzip" {
		o.Level = rapid.SampledFrom([]int{0, 1, 6, 6, 9}).Draw(t, "gzipLevel")
	}
	if rapid.IntRange(0, 2).Draw(t, "nofrag") == 0 {
		o.NoFragments = true
	}
	if rapid.IntRange(0, 3).Draw(t, "nci") == 0 {
		o.NoCompInodes = true
	}
	if rapid.IntRange(0, 3).Draw(t, "ncd") == 0 {
		o.NoCompData = true
	}
	if rapid.IntRange(0, 3).Draw(t, "ncf") == 0 {
		o.NoCompFrags = true
	}
	if rapid.IntRange(0, 3).Draw(t, "nopad") == 0 {
		o.NoPad = true
	}
	if rapid.IntRange(0, 4).Draw(t, "nonsparse") == 0 {
		o.NonSparse = true
	}
	if rapid.IntRange(0, 4).Draw(t, "nonexp") == 0 {
		o.NonExportable = true
	}
	return o
}

func genFinCase(t *rapid.T) *finCase {
	f := &finCase{}
	f.FS = rapid.SampledFrom([]string{"iso9660", "squashfs"}).Draw(t, "finfs")
	f.Start = rapid.SampledFrom([]int64{0, 0, 2048, 1 << 20, 1<<32 + 8192}).Draw(t, "start")
	f.Tail = rapid.SampledFrom([]int64{0, 4096, 1 << 20}).Draw(t, "tail")
	if f.FS == "iso9660" {
		f.BS = rapid.SampledFrom([]int64{2048, 2048, 4096, 8192}).Draw(t, "isobs")
		// (C03 judges containment only, so other block sizes stay in its domain even while KF-ISO-BLOCKSIZE is active)
		f.Tree = genTree(t, treeOpts{maxEntries: 14, maxDepth: 5, unit: int(f.BS), names: "iso", bigDirs: true})
		f.Iso = genIsoOpts(t)
		f.Start = f.Start / f.BS * f.BS
	} else {
		f.BS = rapid.SampledFrom([]int64{4096, 4096, 8192, 131072}).Draw(t, "sqbs")
		f.Tree = genTree(t, treeOpts{maxEntries: 14, maxDepth: 5, unit: int(f.BS), names: "posix", bigDirs: true, maxFile: 3 * int(f.BS)})
		f.Sq = genSqOpts(t)
	}
	payload := int64(0)
	for _, e := range f.Tree {
		payload += int64(e.Data.Len) + 512
	}
	switch rapid.IntRange(0, 3).Draw(t, "sizeMode") {
	case 0: // far too small: Finalize has to refuse or at least stay inside
		f.Size = 64<<10 + int64(rapid.IntRange(0, 3).Draw(t, "tiny"))*f.BS
	case 1: // about the size of the payload (boundary)
		f.Size = (payload/2 + 80<<10) / f.BS * f.BS
	default:
		f.Size = (payload*2 + 1<<20) / f.BS * f.BS
	}
	if min := 2 * f.BS; f.Size < min {
		f.Size = min
	}
	if f.Size < 64<<10 {
		f.Size = 64 << 10
	}
	return f
}

func genC03(t *rapid.T) any {
	c := c03Case{}
	switch rapid.IntRange(0, 9).Draw(t, "component") {
	case 0, 1, 2:
		h := genFATHistory(t, fatGenOpts{prop: "C03", maxBytes: fatMaxBytes(), maxOps: 12})
		c.FAT = &h
	case 3:
		tc := genC02(t).(c02Case)
		c.Table = &tc
	case 4:
		sc := genC13(t).(c13Case)
		sc.Op = "write"
		c.Stream = &sc
	case 5, 6:
		c.Fin = genFinCase(t)
	default:
		e := genE4History(t, e4GenOpts{prop: "C03", maxOps: 10, forceFill: true})
		c.Ext4 = &e
	}
	return c
}

func execFinGuard(f *finCase, r *hx.Result) {
	total := f.Start + f.Size + f.Tail
	d := dev.New(total)
	d.AddPattern(0, f.Start)
	d.AddPattern(f.Start+f.Size, total)
	d.Guard([]dev.Interval{{Lo: f.Start, Hi: f.Start + f.Size}})
	r.Class("fs:" + f.FS)
	var err error
	fin := hx.WithTimeout(4*watchdog(), func() {
		if p, pv, st := hx.Safe(func() {
			if f.FS == "iso9660" {
				err = mk.BuildISO(d, f.Size, f.Start, f.BS, f.Tree, f.Iso)
			} else {
				err = mk.BuildSquashfs(d, f.Size, f.Start, f.BS, f.Tree, f.Sq)
			}
		}); p {
			r.Fail("finalize-panic:"+panicKind(pv), "%s Create/Finalize panicked: %v [%s]", f.FS, pv, st)
		}
	})
	if !fin {
		r.Fail("finalize-hang", "%s Finalize did not return", f.FS)
	}
	if r.Failed() {
		return
	}
	if err != nil {
		r.Class("refused:finalize")
		r.Nontrivial = true
	}
	if f.Start != 0 {
		r.Nontrivial = true
	}
	if esc := d.Escapes(); len(esc) > 0 {
		r.Fail("escape", "%s (size %d at start %d, finalize err=%v): WriteAt(off=%d,len=%d) lies outside [%d,%d)", f.FS, f.Size, f.Start, err, esc[0].Off, esc[0].Len, f.Start, f.Start+f.Size)
		return
	}
	if off := d.OutsideDiff([]dev.Interval{{Lo: f.Start, Hi: f.Start + f.Size}}); off >= 0 {
		r.Fail("guard-bytes", "%s: device byte %d outside [%d,%d) changed", f.FS, off, f.Start, f.Start+f.Size)
	}
}

func execTableGuard(c *c02Case, r *hx.Result) {
	s := c.New
	size := s.diskSize()
	lss := int64(s.lss())
	d := dev.New(size)
	d.AddPattern(0, size)
	r.Class("table:" + s.kind())
	var allowed []dev.Interval
	if s.G != nil {
		sectors := size / lss
		as := int64(gptArraySectors(int(lss)))
		if s.G.PMBR {
			allowed = append(allowed, dev.Interval{Lo: 446, Hi: 512})
		}
		allowed = append(allowed,
			dev.Interval{Lo: lss, Hi: 2 * lss},
			dev.Interval{Lo: 2 * lss, Hi: (2 + as) * lss},
			dev.Interval{Lo: (sectors - 1 - as) * lss, Hi: (sectors - 1) * lss},
			dev.Interval{Lo: (sectors - 1) * lss, Hi: sectors * lss})
	} else {
		allowed = []dev.Interval{{Lo: 446, Hi: 512}}
	}
	d.Guard(allowed)
	err, p, pv, st := writeTable(d, s)
	if p {
		r.Fail("table-write-panic", "Table.Write panicked: %v [%s]", pv, st)
		return
	}
	if err != nil {
		r.Class("refused:table")
	}
	r.Nontrivial = true
	if esc := d.Escapes(); len(esc) > 0 {
		r.Fail("table-escape", "%s Table.Write: WriteAt(off=%d,len=%d) touches bytes outside the table's own sectors %v", s.kind(), esc[0].Off, esc[0].Len, allowed)
		return
	}
	if off := d.OutsideDiff(allowed); off >= 0 {
		r.Fail("table-guard-bytes", "%s Table.Write changed device byte %d (boot code / partition data)", s.kind(), off)
	}
}

func execC03(ci any) (r hx.Result) {
	c := ci.(c03Case)
	switch {
	case c.FAT != nil:
		x := &fatRun{c: *c.FAT, r: &r, doGuard: true, guardOnly: true}
		x.run()
		if x.sawENOSPC || c.FAT.Cfg.Start != 0 || c.FAT.Cfg.Size%int64(fatClusterBytes(c.FAT.Cfg)) != 0 {
			r.Nontrivial = true
		}
	case c.Table != nil:
		execTableGuard(c.Table, &r)
	case c.Stream != nil:
		r = execC13(*c.Stream)
		r.Class("component:stream")
	case c.Fin != nil:
		execFinGuard(c.Fin, &r)
	case c.Ext4 != nil:
		x := &e4Run{c: *c.Ext4, r: &r, doGuard: true, guardOnly: true}
		x.run()
		if x.sawRefusal || c.Ext4.Cfg.Start != 0 {
			r.Nontrivial = true
		}
	default:
		r.Discard = true
	}
	return
}

func init() {
	hx.Register(&hx.Spec{ID: "C03", Gen: genC03, Exec: execC03, New: func() any { return new(c03Case) },
		Rule: "case = one component given a byte range inside a larger pattern-filled device: FAT12/16/32 or ext4 history (incl. fill-to-refusal), iso9660/squashfs Create+Finalize of a generated tree (incl. sizes too small for the tree), GPT/MBR Table.Write, or a partition stream; oracle = every WriteAt range-checked and guard bytes compared; non-trivial = the volume reached a refusal (no space / too large), or start != 0, or size not a cluster multiple, or a table/stream case; distinct by hash of the case JSON"})
}

func TestC03(t *testing.T) { hx.RunProp(t, "C03") }

var _ = fmt.Sprintf
