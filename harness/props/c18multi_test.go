package props

// C18, beyond the boundary values of the sweep: one fault per case with an arbitrary value and width, drawn
// by rapid (TestC18Values, thorough tier) or decoded from the bytes a coverage-guided native fuzz campaign
// produces (FuzzC18, thorough tier). Same oracle and the same one-field rule as the enumeration. (The
// statement speaks of one corrupted field, so several simultaneous faults are not generated; the case
// format can hold them for experiments, and they are never judged.)

import (
	"encoding/binary"
	"sort"
	"testing"

	"pgregory.net/rapid"

	"verifharness/hx"
)

// c18ReadOffset maps a selector to the sel-th byte of the base's read set.
func c18ReadOffset(im *c18Image, sel uint64) int64 {
	c18Mu.Lock()
	if im.cum == nil {
		total := int64(0)
		for _, iv := range im.readSet {
			total += iv.Hi - iv.Lo
			im.cum = append(im.cum, total)
		}
	}
	cum := im.cum
	c18Mu.Unlock()
	if len(cum) == 0 || cum[len(cum)-1] == 0 {
		return 0
	}
	k := int64(sel % uint64(cum[len(cum)-1]))
	i := sort.Search(len(cum), func(i int) bool { return cum[i] > k })
	before := int64(0)
	if i > 0 {
		before = cum[i-1]
	}
	return im.readSet[i].Lo + (k - before)
}

func c18MakeFault(im *c18Image, sel uint64, wsel, vsel uint8, raw uint64) c18Fault {
	w := 1 << (wsel & 3)
	off := c18ReadOffset(im, sel) / int64(w) * int64(w)
	if off+int64(w) > im.size {
		off = im.size - int64(w)
	}
	var val []byte
	if cands := c18Values(im.bytes, off, w, im.size, 512); vsel&1 == 0 && len(cands) > 0 {
		val = cands[int(vsel>>1)%len(cands)]
	} else {
		val = le(raw, w)
	}
	return c18Fault{Off: off, Hex: hexs(val)}
}

func genC18Multi(t *rapid.T) any {
	c := c18Case{Base: rapid.SampledFrom(c18Bases).Draw(t, "base")}
	im := c18Build(c.Base)
	if im.err != nil {
		return c
	}
	f := c18MakeFault(im, rapid.Uint64().Draw(t, "where"), uint8(rapid.IntRange(0, 3).Draw(t, "width")), rapid.Uint8().Draw(t, "value"), rapid.Uint64().Draw(t, "raw"))
	c.Only = &f
	return c
}

// TestC18Values: rapid-generated single faults with arbitrary values (thorough tier).
func TestC18Values(t *testing.T) { hx.RunProp(t, "C18") }

// FuzzC18: coverage-guided single faults. Input = base selector + one 12-byte fault record
// (3 bytes position in the read set, 1 byte width/value mode, 8 bytes raw value).
func FuzzC18(f *testing.F) {
	for bi := range c18Bases {
		f.Add(uint8(bi), []byte{0x10, 0, 0, 0x02, 0xff, 0xff, 0xff, 0xff, 0, 0, 0, 0})
		f.Add(uint8(bi), []byte{0x40, 0x01, 0, 0x05, 0, 0, 0, 0, 0, 0, 0, 0x80})
	}
	f.Fuzz(func(t *testing.T, base uint8, prog []byte) {
		c := c18Case{Base: c18Bases[int(base)%len(c18Bases)]}
		im := c18Build(c.Base)
		if im.err != nil || len(prog) < 12 {
			return
		}
		var fs []c18Fault
		for i := 0; i+12 <= len(prog) && len(fs) < 1; i += 12 {
			rec := prog[i : i+12]
			sel := uint64(rec[0]) | uint64(rec[1])<<8 | uint64(rec[2])<<16
			fs = append(fs, c18MakeFault(im, sel*7, rec[3]&3, rec[3]>>2, binary.LittleEndian.Uint64(rec[4:12])))
		}
		c.Only = &fs[0]
		c.Also = fs[1:]
		hx.RunFuzz(t, "C18", c)
	})
}
