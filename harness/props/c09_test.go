package props

// C09 — Repartitioning a GPT disk is atomic across power loss.
// Fault enumeration: record the WriteAt/Sync sequence of Table.Write, rebuild
// the device for every crash state (epoch prefix x subset of the in-flight
// epoch's sectors) and require partition.Read to return exactly old or new.

import (
	"fmt"
	"sort"
	"strings"
	"testing"

	"github.com/diskfs/go-diskfs/partition"
	"github.com/diskfs/go-diskfs/partition/gpt"
	"pgregory.net/rapid"

	"verifharness/dev"
	"verifharness/hx"
)

// c09Pre describes how the "old" state came about when it is not a plain completed Write: table A was
// written completely, the write of Old over it was cut off (epoch, subset), the table was read back
// (possibly recovered from the backup copy) and written again by the caller - the documented repair.
type c09Pre struct {
	A     gptSpec `json:"a"`
	Epoch int     `json:"epoch"`
	Sub   int     `json:"sub"`
}

type c09Case struct {
	Pre     *c09Pre  `json:"pre,omitempty"`
	Old     *gptSpec `json:"old,omitempty"` // nil: blank disk
	New     gptSpec  `json:"new"`
	SubSeed uint64   `json:"subseed"` // drives the 32 random subsets per in-flight epoch
}

func forceGUIDs(t *rapid.T, g *gptSpec) {
	if g.GUID == "" {
		g.GUID = genGUID(t, "forcedDiskGUID")
	}
	for i := range g.Parts {
		if g.Parts[i].GUID == "" {
			g.Parts[i].GUID = genGUID(t, "forcedPartGUID")
		}
	}
}

func genC09(t *rapid.T) any {
	c := c09Case{SubSeed: rapid.Uint64().Draw(t, "subseed")}
	geo := genGPTSpec(t, false)
	if geo.Sectors > 1<<22 && rapid.IntRange(0, 3).Draw(t, "shrinkDisk") != 0 {
		geo.Sectors = uint64(rapid.IntRange(int(2*gptArraySectors(geo.LSS)+8), 5000).Draw(t, "smallSectors"))
		geo.Parts = nil
		genGPTParts(t, geo)
	}
	forceGUIDs(t, geo)
	c.New = *geo
	switch rapid.IntRange(0, 5).Draw(t, "oldMode") {
	case 0: // blank disk
	case 1, 2: // independent old table on the same geometry
		o := &gptSpec{LSS: geo.LSS, PSS: geo.PSS, Sectors: geo.Sectors, Slack: geo.Slack}
		genGPTParts(t, o)
		forceGUIDs(t, o)
		c.Old = o
	default: // old = new with one mutation
		o := *geo
		o.Parts = append([]gptPart(nil), geo.Parts...)
		switch rapid.IntRange(0, 5).Draw(t, "mut") {
		case 0:
			o.GUID = genGUID(t, "oldDiskGUID")
		case 1:
			if len(o.Parts) > 0 {
				i := rapid.IntRange(0, len(o.Parts)-1).Draw(t, "mutIdx")
				o.Parts[i].Name = genGPTName(t)
			} else {
				o.GUID = genGUID(t, "oldDiskGUID2")
			}
		case 2:
			if len(o.Parts) > 0 {
				o.Parts = o.Parts[:len(o.Parts)-1]
			} else {
				o.GUID = genGUID(t, "oldDiskGUID3")
			}
		case 3:
			if len(o.Parts) > 0 {
				i := rapid.IntRange(0, len(o.Parts)-1).Draw(t, "mutIdx2")
				o.Parts[i].Attrs ^= 1 << uint(rapid.IntRange(0, 63).Draw(t, "attrBit2"))
			} else {
				o.PMBR = !o.PMBR
			}
		case 4:
			if len(o.Parts) > 0 {
				i := rapid.IntRange(0, len(o.Parts)-1).Draw(t, "mutIdx3")
				o.Parts[i].GUID = genGUID(t, "mutGUID")
			} else {
				o.GUID = genGUID(t, "oldDiskGUID4")
			}
		case 5:
			o.PMBR = !o.PMBR
			o.GUID = genGUID(t, "oldDiskGUID5")
		}
		c.Old = &o
	}
	if c.Old != nil && rapid.IntRange(0, 3).Draw(t, "preMode") == 0 {
		a := &gptSpec{LSS: geo.LSS, PSS: geo.PSS, Sectors: geo.Sectors, Slack: geo.Slack}
		genGPTParts(t, a)
		forceGUIDs(t, a)
		c.Pre = &c09Pre{A: *a, Epoch: rapid.IntRange(0, 5).Draw(t, "preEpoch"), Sub: rapid.IntRange(0, 200).Draw(t, "preSub")}
	}
	return c
}

// tableSig: what "exactly this table" means — disk GUID + full partition list.
func specSig(g *gptSpec) string {
	var ps []string
	for _, p := range g.Parts {
		f, l := p.firstLast(g.LSS)
		ps = append(ps, fmt.Sprintf("%03d|%d|%d|%s|%q|%s|%x", p.Index, f, l, strings.ToUpper(p.Type), p.Name, strings.ToUpper(p.GUID), p.Attrs))
	}
	sort.Strings(ps)
	return strings.ToUpper(g.GUID) + "\n" + strings.Join(ps, "\n")
}

func tableSig(t *gpt.Table) string {
	var ps []string
	for _, p := range t.Partitions {
		ps = append(ps, fmt.Sprintf("%03d|%d|%d|%s|%q|%s|%x", p.Index, p.Start, p.End, strings.ToUpper(string(p.Type)), p.Name, strings.ToUpper(p.GUID), p.Attributes))
	}
	sort.Strings(ps)
	return strings.ToUpper(t.GUID) + "\n" + strings.Join(ps, "\n")
}

type sectorWrite struct {
	off  int64
	data []byte
}

func splitSectors(ws []dev.WriteRec, lss int) []sectorWrite {
	var out []sectorWrite
	for _, w := range ws {
		off := w.Off
		data := w.Data
		for len(data) > 0 {
			n := lss - int(off%int64(lss))
			if n > len(data) {
				n = len(data)
			}
			out = append(out, sectorWrite{off, data[:n]})
			off += int64(n)
			data = data[n:]
		}
	}
	return out
}

// subsetFamily yields index sets over n sectors.
func subsetFamily(n int, seed uint64, emit func(sel func(i int) bool, name string) bool) {
	if n == 0 {
		return
	}
	if n <= 12 {
		for m := 0; m < 1<<uint(n); m++ {
			mm := m
			if !emit(func(i int) bool { return mm>>uint(i)&1 == 1 }, fmt.Sprintf("mask%#x", mm)) {
				return
			}
		}
		return
	}
	if !emit(func(int) bool { return false }, "none") || !emit(func(int) bool { return true }, "all") {
		return
	}
	for k := 0; k < n; k++ {
		kk := k
		if !emit(func(i int) bool { return i == kk }, fmt.Sprintf("single%d", kk)) {
			return
		}
	}
	for k := 1; k < n; k++ {
		kk := k
		if !emit(func(i int) bool { return i < kk }, fmt.Sprintf("first%d", kk)) {
			return
		}
		if !emit(func(i int) bool { return i >= n-kk }, fmt.Sprintf("last%d", kk)) {
			return
		}
	}
	if !emit(func(i int) bool { return i%2 == 0 }, "even") || !emit(func(i int) bool { return i%2 == 1 }, "odd") {
		return
	}
	x := seed | 1
	for k := 0; k < 32; k++ {
		bits := make([]bool, n)
		for i := range bits {
			x ^= x << 13
			x ^= x >> 7
			x ^= x << 17
			bits[i] = x>>33&1 == 1
		}
		if !emit(func(i int) bool { return bits[i] }, fmt.Sprintf("rand%d", k)) {
			return
		}
	}
}

// subsetCount is the number of index sets subsetFamily yields for n sectors.
func subsetCount(n int) int {
	k := 0
	subsetFamily(n, 1, func(func(int) bool, string) bool { k++; return true })
	if k == 0 {
		return 1
	}
	return k
}

func execC09(ci any) (r hx.Result) {
	c := ci.(c09Case)
	nw := c.New
	lss := nw.LSS
	size := tableSpec{G: &nw}.diskSize()
	base := dev.New(size)
	oldSig := ""
	if c.Old != nil && c.Pre != nil {
		// old state = A, then an interrupted write of Old, then read + write-back (repair)
		if err := c.Pre.A.table().Write(base, size); err != nil {
			r.Discard = true
			r.Class("pre-rejected")
			return
		}
		d0 := base.Clone()
		d0.KeepData = true
		if err := c.Old.table().Write(d0, size); err != nil {
			r.Discard = true
			r.Class("old-rejected")
			return
		}
		ws := d0.Writes()
		ne := 0
		for _, w := range ws {
			if w.Epoch+1 > ne {
				ne = w.Epoch + 1
			}
		}
		e := c.Pre.Epoch % ne
		img := base.Clone()
		var inflight []dev.WriteRec
		for _, w := range ws {
			if w.Epoch < e {
				img.Poke(w.Off, w.Data)
			} else if w.Epoch == e {
				inflight = append(inflight, w)
			}
		}
		secs := splitSectors(inflight, lss)
		k, chosen := 0, ""
		subsetFamily(len(secs), c.SubSeed, func(sel func(int) bool, name string) bool {
			if k == c.Pre.Sub%subsetCount(len(secs)) {
				for i, sw := range secs {
					if sel(i) {
						img.Poke(sw.off, sw.data)
					}
				}
				chosen = name
				return false
			}
			k++
			return true
		})
		var pt partition.Table
		var err error
		if p, pv, st := hx.Safe(func() { pt, err = partition.Read(img, lss, nw.pss()) }); p {
			r.Fail("crash-read-panic", "preparation (crash in epoch %d subset %s): partition.Read panicked: %v [%s]", e, chosen, pv, st)
			return
		}
		gt, _ := pt.(*gpt.Table)
		if err != nil || gt == nil {
			r.Fail("crash-unreadable", "preparation: partition table unreadable as GPT after a crash in sync epoch %d/%d (subset %s) of writing the old table over an earlier one (err=%v)", e, ne, chosen, err)
			return
		}
		oldSig = tableSig(gt)
		if oldSig != specSig(c.Old) && oldSig != specSig(&c.Pre.A) {
			r.Fail("crash-mixture", "preparation: after a crash in sync epoch %d/%d (subset %s) partition.Read returns neither table:\n%s", e, ne, chosen, oldSig)
			return
		}
		recovered := gt.RecoveredFromBackup
		if p, pv, st := hx.Safe(func() { err = gt.Write(img, size) }); p {
			r.Fail("write-panic", "writing back the table read after a crash panicked: %v [%s]", pv, st)
			return
		}
		if err != nil {
			r.Discard = true
			r.Class("repair-rejected")
			r.Note("writing back the table read after a crash was refused: %v", err)
			return
		}
		var gt2 *gpt.Table
		if p, _, _ := hx.Safe(func() { pt, err = partition.Read(img, lss, nw.pss()) }); !p && err == nil {
			gt2, _ = pt.(*gpt.Table)
		}
		if gt2 == nil || tableSig(gt2) != oldSig || gt2.RecoveredFromBackup {
			r.Fail("repair", "a table read after a crash (recovered from backup: %v) and written back does not read back as itself from the primary copy (err=%v)", recovered, err)
			return
		}
		base = img.Clone()
		r.Class("old:repaired")
		if recovered {
			r.Class("old:repaired-from-backup")
		}
	} else if c.Old != nil {
		if err := c.Old.table().Write(base, size); err != nil {
			r.Discard = true
			r.Class("old-rejected")
			return
		}
		oldSig = specSig(c.Old)
		r.Class("old:table")
	} else {
		r.Class("old:blank")
	}
	newSig := specSig(&nw)
	d := base.Clone()
	d.KeepData = true
	var werr error
	if p, pv, st := hx.Safe(func() { werr = nw.table().Write(d, size) }); p {
		r.Fail("write-panic", "Table.Write panicked: %v [%s]", pv, st)
		return
	}
	if werr != nil {
		r.Discard = true
		r.Class("new-rejected")
		return
	}
	writes := d.Writes()
	nEpochs := 0
	for _, w := range writes {
		if w.Epoch+1 > nEpochs {
			nEpochs = w.Epoch + 1
		}
	}
	r.Class(fmt.Sprintf("epochs:%d", nEpochs))
	r.Class(fmt.Sprintf("writes:%d", len(writes)))

	check := func(img *dev.Device, where string, final bool) bool {
		var pt partition.Table
		var err error
		if p, pv, st := hx.Safe(func() { pt, err = partition.Read(img, lss, nw.pss()) }); p {
			r.Fail("crash-read-panic", "%s: partition.Read panicked: %v [%s]", where, pv, st)
			return false
		}
		var gt *gpt.Table
		if err == nil {
			gt, _ = pt.(*gpt.Table)
		}
		if gt != nil {
			sig := tableSig(gt)
			if sig == newSig {
				if final && gt.RecoveredFromBackup {
					r.Fail("final-from-backup", "%s: completed Write reads back from the backup copy", where)
					return false
				}
				return true
			}
			if c.Old != nil && sig == oldSig && !final {
				return true
			}
			r.Fail("crash-mixture", "%s: partition.Read returns a table that is neither exactly old nor exactly new:\n%s\n--old--\n%s\n--new--\n%s", where, sig, oldSig, newSig)
			return false
		}
		// no GPT returned
		if final {
			r.Fail("final-unreadable", "%s: completed Write does not read back as GPT (err=%v)", where, err)
			return false
		}
		if c.Old != nil {
			r.Fail("crash-unreadable", "%s: partition table unreadable as GPT after a crash (err=%v, type=%v); old table was valid", where, err, tableType(pt))
			return false
		}
		// blank old: "no table" is the old state; an MBR view consisting of the protective entry only is accepted (informational)
		if err == nil && pt != nil && pt.Type() == "mbr" {
			r.Note("blank disk, crash after the protective MBR: partition.Read reports an MBR table")
		}
		return true
	}

	// crash states
	for e := 0; e < nEpochs; e++ {
		durable := base.Clone()
		var inflight []dev.WriteRec
		for _, w := range writes {
			if w.Epoch < e {
				durable.Poke(w.Off, w.Data)
			} else if w.Epoch == e {
				inflight = append(inflight, w)
			}
		}
		secs := splitSectors(inflight, lss)
		ok := true
		subsetFamily(len(secs), c.SubSeed+uint64(e), func(sel func(int) bool, name string) bool {
			img := durable.Clone()
			cnt := 0
			for i, s := range secs {
				if sel(i) {
					img.Poke(s.off, s.data)
					cnt++
				}
			}
			r.Sub++
			inside := !(e == 0 && cnt == 0) && !(e == nEpochs-1 && cnt == len(secs))
			if inside && oldSig != newSig {
				r.SubNT++
			}
			if !check(img, fmt.Sprintf("crash in sync epoch %d/%d (%d sectors in flight, subset %s = %d persisted)", e, nEpochs, len(secs), name, cnt), false) {
				ok = false
				return false
			}
			return true
		})
		if !ok {
			return
		}
	}
	// final state
	r.Sub++
	final := base.Clone()
	for _, w := range writes {
		final.Poke(w.Off, w.Data)
	}
	if !check(final, "after the completed Write", true) {
		return
	}
	if oldSig != newSig && r.SubNT > 0 {
		r.Nontrivial = true
	}
	return
}

func tableType(t partition.Table) string {
	if t == nil {
		return "<nil>"
	}
	return t.Type()
}

func init() {
	hx.Register(&hx.Spec{ID: "C09", Gen: genC09, Exec: execC09, New: func() any { return new(c09Case) },
		Rule: "case = (old GPT or blank, new GPT) on one disk geometry; evaluations = crash states = for every sync epoch of Table.Write: all earlier epochs durable x subset of the in-flight epoch's logical sectors from {none, all, each single, first-k, last-k, even, odd, 32 seeded random; all 2^n when n<=12}; non-trivial crash state = strictly inside the write sequence with old != new (distinct by construction within a pair); distinct_nontrivial counts those states"})
}

func TestC09(t *testing.T) { hx.RunProp(t, "C09") }
