package props

// Bounded-exhaustive FAT histories for C01 / C08: every sequence of at most L operations over a
// fixed 18-symbol alphabet (two files in the root, one directory, one file inside it), on one small
// volume per FAT type. Sequences in which an operation names something that does not exist at that
// point are pruned (they would repeat a shorter sequence). The cases are ordinary histCase values,
// judged by the same executors and replayed from the same JSON as the generated histories.

import (
	"os"
	"strconv"
	"testing"

	"verifharness/hx"
	"verifharness/mk"
)

type enumSym struct {
	op func(cb int) fsOp
	// needs / effect on the symbolic existence state (bit 0: A, 1: B, 2: D, 3: D/A)
	need  uint8
	set   uint8
	clear uint8
	// special handling
	kind int // 0 plain, 1 rename A->B, 2 rename B->A, 3 remove D (refused when D/A exists - still executed)
}

const (
	eA = 1 << iota
	eB
	eD
	eDA
)

var enumAlphabet = []enumSym{
	{op: func(cb int) fsOp { return fsOp{K: "create", P: "A.TXT", D: mk.Content{Seed: 11, Len: cb + 1}} }, set: eA},
	{op: func(cb int) fsOp { return fsOp{K: "create", P: "B.TXT", D: mk.Content{Seed: 12, Len: 600}} }, set: eB},
	{op: func(cb int) fsOp {
		return fsOp{K: "write", P: "A.TXT", Off: int64(2*cb + 5), D: mk.Content{Seed: 13, Len: 10}}
	}, need: eA},
	{op: func(cb int) fsOp { return fsOp{K: "append", P: "A.TXT", D: mk.Content{Seed: 14, Len: cb}} }, need: eA},
	{op: func(cb int) fsOp { return fsOp{K: "trunc", P: "A.TXT", D: mk.Content{Seed: 15, Len: 3}} }, need: eA},
	{op: func(cb int) fsOp { return fsOp{K: "rename", P: "A.TXT", Q: "B.TXT"} }, need: eA, kind: 1},
	{op: func(cb int) fsOp { return fsOp{K: "rename", P: "B.TXT", Q: "A.TXT"} }, need: eB, kind: 2},
	{op: func(cb int) fsOp { return fsOp{K: "remove", P: "A.TXT"} }, need: eA, clear: eA},
	{op: func(cb int) fsOp { return fsOp{K: "remove", P: "B.TXT"} }, need: eB, clear: eB},
	{op: func(cb int) fsOp { return fsOp{K: "mkdir", P: "D"} }, set: eD},
	{op: func(cb int) fsOp { return fsOp{K: "create", P: "D/A.TXT", D: mk.Content{Seed: 16, Len: cb - 1}} }, need: eD, set: eDA},
	{op: func(cb int) fsOp { return fsOp{K: "remove", P: "D"} }, need: eD, kind: 3},
	{op: func(cb int) fsOp { return fsOp{K: "reopen"} }},
	{op: func(cb int) fsOp { return fsOp{K: "append", P: "B.TXT", D: mk.Content{Seed: 17, Len: 1}} }, need: eB},
	{op: func(cb int) fsOp { return fsOp{K: "write", P: "B.TXT", Off: 1, D: mk.Content{Seed: 18, Len: cb}} }, need: eB},
	{op: func(cb int) fsOp { return fsOp{K: "remove", P: "D/A.TXT"} }, need: eDA, clear: eDA},
	{op: func(cb int) fsOp {
		return fsOp{K: "squeeze", P: "A.TXT", Q: "B.TXT", Chunk: 16 * cb, D: mk.Content{Seed: 19}}
	}, need: eA | eB, clear: eA},
	{op: func(cb int) fsOp {
		return fsOp{K: "squeeze", P: "B.TXT", Q: "A.TXT", Chunk: 16 * cb, D: mk.Content{Seed: 20}}
	}, need: eA | eB, clear: eB},
}

func (s enumSym) apply(st uint8) (uint8, bool) {
	if st&s.need != s.need {
		return st, false
	}
	switch s.kind {
	case 1:
		return st&^eA | eB, true
	case 2:
		return st&^eB | eA, true
	case 3:
		if st&eDA != 0 {
			return st, true // refused: non-empty
		}
		return st &^ eD, true
	}
	return st&^s.clear | s.set, true
}

var enumCfgs = []fatCfg{
	{Kind: "fat12", Size: 64<<10 + 512, Start: 0, Tail: 512, BS: 512},
	{Kind: "fat16", Size: 4400 << 10, Start: 512, Tail: 512, BS: 512},
	{Kind: "fat32", Size: 1<<20 + 1536, Start: 1 << 20, Tail: 512, BS: 512},
}

// enumFATHistories calls f for every pruned sequence of length 1..maxLen and every configuration.
func enumFATHistories(maxLen int, f func(idx int, c histCase) bool) {
	idx := 0
	var rec func(cfg fatCfg, cb int, st uint8, ops []fsOp) bool
	rec = func(cfg fatCfg, cb int, st uint8, ops []fsOp) bool {
		if len(ops) > 0 {
			// a sequence ending in reopen is covered by the final reopen of every history
			if ops[len(ops)-1].K != "reopen" {
				c := histCase{Cfg: cfg, Ops: append([]fsOp(nil), ops...)}
				if !f(idx, c) {
					return false
				}
				idx++
			}
		}
		if len(ops) == maxLen {
			return true
		}
		for _, s := range enumAlphabet {
			nst, ok := s.apply(st)
			if !ok {
				continue
			}
			o := s.op(cb)
			if o.K == "reopen" && (len(ops) == 0 || ops[len(ops)-1].K == "reopen") {
				continue
			}
			if !rec(cfg, cb, nst, append(ops, o)) {
				return false
			}
		}
		return true
	}
	for _, cfg := range enumCfgs {
		if !rec(cfg, fatClusterBytes(cfg), 0, nil) {
			return
		}
	}
}

func enumLen() int {
	if n, err := strconv.Atoi(os.Getenv("VERIF_ENUM_LEN")); err == nil && n > 0 {
		return n
	}
	if hx.Thorough() {
		return 6
	}
	return 4
}

func runFATEnum(t *testing.T, id string) {
	shard, _ := strconv.Atoi(os.Getenv("VERIF_SHARD_INDEX"))
	nshard, _ := strconv.Atoi(os.Getenv("VERIF_NSHARDS"))
	if nshard < 1 {
		nshard = 1
	}
	ch := make(chan histCase, 64)
	done := make(chan struct{})
	go func() {
		defer close(ch)
		enumFATHistories(enumLen(), func(idx int, c histCase) bool {
			if idx%nshard != shard {
				return true
			}
			select {
			case ch <- c:
				return true
			case <-done:
				return false
			}
		})
	}()
	defer close(done)
	n := 0
	hx.RunEnum(t, id, func() (any, bool) {
		c, ok := <-ch
		if !ok {
			hx.AddExtra(id, "enumerated_histories", n)
			hx.SetExtra(id, "enumeration", "every sequence of 1.."+strconv.Itoa(enumLen())+" operations over an 18-symbol alphabet (create/write-past-EOF/append/trunc/rename-over/remove on A.TXT and B.TXT, mkdir D, create/remove D/A.TXT, remove D, reopen, fill-the-volume-then-remove-one-and-grow-the-other in both directions), pruned of operations on missing names, on one fat12, one fat16 and one fat32 volume")
			return nil, false
		}
		n++
		return c, true
	})
}

func TestC01Enum(t *testing.T) { runFATEnum(t, "C01") }
func TestC08Enum(t *testing.T) { runFATEnum(t, "C08") }
