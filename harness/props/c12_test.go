package props

// C12 — Existing filesystems and tables are recognised as what they are.

import (
	"bytes"
	"fmt"
	"io"
	iofs "io/fs"
	"os"
	"strings"
	"sync"
	"testing"

	diskfs "github.com/diskfs/go-diskfs"
	"github.com/diskfs/go-diskfs/disk"
	"github.com/diskfs/go-diskfs/filesystem"
	"github.com/diskfs/go-diskfs/filesystem/iso9660"
	"github.com/diskfs/go-diskfs/filesystem/squashfs"
	"github.com/diskfs/go-diskfs/partition/gpt"
	"github.com/diskfs/go-diskfs/partition/mbr"
	"pgregory.net/rapid"

	"verifharness/dev"
	"verifharness/hx"
	"verifharness/mk"
)

type c12Case struct {
	T     string `json:"t"`     // fat12 fat16 fat32 ext4 iso9660 squashfs blank
	Stale string `json:"stale"` // previous filesystem left in the range ("" = none, "garbage")
	Place string `json:"place"` // whole, gpt, mbr
	Part  int    `json:"part"`  // partition index used (1..3)
	Size  int64  `json:"size"`  // size of the range
	Label string `json:"label"`
	Seed  uint32 `json:"seed"`
	LSS   int    `json:"lss,omitempty"` // 4096: a disk with 4096-byte logical sectors (fat32 only; squashfs always uses 4096)
}

var fsTypes = map[string]filesystem.Type{"fat12": filesystem.TypeFat12, "fat16": filesystem.TypeFat16, "fat32": filesystem.TypeFat32,
	"ext4": filesystem.TypeExt4, "iso9660": filesystem.TypeISO9660, "squashfs": filesystem.TypeSquashfs}

func c12Sizes(t string) []int64 {
	switch t {
	case "fat12":
		return []int64{64 << 10, 1474560, 4 << 20, 8<<20 - 512, 16 << 20, 32 << 20}
	case "fat16":
		return []int64{4400 << 10, 4300 << 10, 8 << 20, 32 << 20, 33 << 20, 130 << 20}
	case "fat32":
		return []int64{1<<20 + 512, 2 << 20, 33 << 20, 34 << 20, 66 << 20, 261 << 20}
	case "ext4":
		return []int64{8 << 20, 16 << 20, 20 << 20, 33 << 20, 64 << 20}
	case "iso9660":
		return []int64{1 << 20, 4 << 20, 10 << 20}
	case "squashfs":
		return []int64{1 << 20, 4 << 20, 10 << 20}
	}
	return []int64{1 << 20, 8 << 20, 32 << 20}
}

var (
	c12BoundsMu sync.Mutex
	c12Bounds   = map[string][2]int64{}
)

// c12FATBounds returns the smallest and (for fat12/fat16) largest sector count at which Create accepts the
// FAT type, found once per process by bisection on a sparse device (0, 0 for other types).
func c12FATBounds(t string) (int64, int64) {
	if t != "fat12" && t != "fat16" && t != "fat32" {
		return 0, 0
	}
	c12BoundsMu.Lock()
	defer c12BoundsMu.Unlock()
	if b, ok := c12Bounds[t]; ok {
		return b[0], b[1]
	}
	accept := func(sectors int64) bool {
		ok := false
		hx.Safe(func() {
			d := dev.New(sectors * 512)
			_, err := mk.CreateFAT(t, d, sectors*512, 0, 512, "B", true)
			ok = err == nil
		})
		return ok
	}
	anchor := map[string]int64{"fat12": 2880, "fat16": 16384, "fat32": 133120}[t] // sizes every type accepts
	var lo, hi int64
	if accept(anchor) {
		a, b := int64(8), anchor // a refused, b accepted
		for b-a > 1 {
			if m := (a + b) / 2; accept(m) {
				b = m
			} else {
				a = m
			}
		}
		lo = b
		if t != "fat32" {
			a, b = anchor, int64(16<<21) // a accepted, b (8 GiB) refused
			if !accept(b) {
				for b-a > 1 {
					if m := (a + b) / 2; accept(m) {
						a = m
					} else {
						b = m
					}
				}
				hi = a
			}
		}
	}
	c12Bounds[t] = [2]int64{lo, hi}
	return lo, hi
}

func genC12(t *rapid.T) any {
	c := c12Case{Seed: rapid.Uint32().Draw(t, "seed")}
	c.T = rapid.SampledFrom([]string{"fat12", "fat16", "fat32", "ext4", "iso9660", "squashfs", "blank"}).Draw(t, "type")
	if c.T == "ext4" && hx.Active("KF-E4-GROUPCOUNT") {
		// sizes are whole MiB here, outside that finding's region
	}
	c.Size = rapid.SampledFrom(c12Sizes(c.T)).Draw(t, "size")
	if lo, hi := c12FATBounds(c.T); lo > 0 {
		// the FAT types are told apart by their cluster count, so the sizes at which Create starts and
		// stops accepting a type are where recognition is most likely to disagree with creation
		switch rapid.IntRange(0, 3).Draw(t, "sizeMode") {
		case 0:
			c.Size = (lo + int64(rapid.IntRange(0, 12).Draw(t, "aboveMin"))) * 512
		case 1:
			if hi > 0 {
				c.Size = (hi - int64(rapid.IntRange(0, 12).Draw(t, "belowMax"))) * 512
			}
		case 2:
			c.Size = rapid.Int64Range(lo, lo*6).Draw(t, "sectors") * 512
		}
	}
	c.Place = rapid.SampledFrom([]string{"whole", "gpt", "mbr"}).Draw(t, "place")
	c.Part = rapid.IntRange(1, 3).Draw(t, "part")
	switch rapid.IntRange(0, 1).Draw(t, "staleMode") {
	case 1:
		others := []string{"fat12", "fat16", "fat32", "ext4", "iso9660", "squashfs", "garbage"}
		c.Stale = rapid.SampledFrom(others).Draw(t, "stale")
		if c.Stale == c.T {
			c.Stale = ""
		}
	}
	labels := []string{"", "DATA", "BOOT DISK", "MYLABEL1234", "a"}
	if c.T == "ext4" {
		labels = append(labels, "SIXTEEN-BYTE-LBL", "fifteen-bytes-l") // the superblock field holds 16 bytes, no terminator when full
	}
	c.Label = rapid.SampledFrom(labels).Draw(t, "label")
	if c.T == "fat32" && c.Place != "mbr" && rapid.IntRange(0, 2).Draw(t, "lss4k") == 0 {
		// FAT32 is the one writable type that accepts 4096-byte sectors
		c.LSS = 4096
		c.Size = c.Size / 4096 * 4096
		if c.Stale != "" && c.Stale != "garbage" {
			c.Stale = "garbage" // the other types refuse this sector size, they cannot have been there
		}
	}
	return c
}

func c12LBS(t string) int64 {
	switch t {
	case "squashfs":
		return 4096
	case "iso9660":
		return 2048
	}
	return 512
}

// sizeOK reports whether a type can be created at all in a range of this size (used for stale content only).
func c12FitSize(t string, size int64) bool {
	switch t {
	case "fat12":
		return size <= 32<<20
	case "fat16":
		return size >= 4400<<10
	case "ext4":
		return size >= 8<<20
	}
	return size >= 1<<20
}

type c12Env struct {
	d      *dev.Device
	lss    int
	partNo int // 0 = whole disk
}

func (e *c12Env) open() (*disk.Disk, error) {
	var opts []diskfs.OpenOpt
	if e.lss == 4096 {
		opts = append(opts, diskfs.WithSectorSize(diskfs.SectorSize4k))
	}
	return diskfs.OpenBackend(e.d, opts...)
}

// makeFS creates a filesystem of type t in the case's range through Disk.CreateFilesystem and puts a probe file into it.
func (e *c12Env) makeFS(t, label string, probe []byte) error {
	dk, err := e.open()
	if err != nil {
		return fmt.Errorf("open: %w", err)
	}
	if e.partNo > 0 && dk.Table == nil {
		return fmt.Errorf("no partition table on reopen")
	}
	dk.LogicalBlocksize = c12LBS(t)
	if (t == "squashfs" || t == "fat32") && e.lss == 4096 {
		dk.LogicalBlocksize = 4096
	}
	fs, err := dk.CreateFilesystem(disk.FilesystemSpec{Partition: e.partNo, FSType: fsTypes[t], VolumeLabel: label})
	if err != nil {
		return fmt.Errorf("CreateFilesystem: %w", err)
	}
	name := "/PROBE.TXT"
	if t == "ext4" || t == "squashfs" {
		name = "probe.txt"
	}
	f, err := fs.OpenFile(name, os.O_CREATE|os.O_RDWR)
	if err != nil {
		return fmt.Errorf("create probe: %w", err)
	}
	if _, err := f.Write(probe); err != nil {
		return fmt.Errorf("write probe: %w", err)
	}
	f.Close()
	switch x := fs.(type) {
	case *iso9660.FileSystem:
		if err := x.Finalize(iso9660.FinalizeOptions{}); err != nil {
			return fmt.Errorf("finalize: %w", err)
		}
	case *squashfs.FileSystem:
		defer x.Close()
		if err := x.Finalize(squashfs.FinalizeOptions{}); err != nil {
			return fmt.Errorf("finalize: %w", err)
		}
	}
	return nil
}

func execC12(ci any) (r hx.Result) {
	c := ci.(c12Case)
	r.Class("type:" + c.T)
	r.Class("place:" + c.Place)
	lss := 512
	if c.T == "squashfs" || c.LSS == 4096 {
		lss = 4096
	}
	if c.LSS == 4096 {
		r.Class("lss:4096")
	}
	// disk layout: [table][p1][p2][p3][backup]; the target partition gets c.Size, the others 1 MiB
	align := int64(1 << 20)
	env := &c12Env{lss: lss}
	var diskSize, start int64
	sizes := []int64{align, align, align}
	sizes[c.Part-1] = (c.Size + int64(lss) - 1) / int64(lss) * int64(lss)
	if c.Place == "whole" {
		diskSize = c.Size
		start = 0
	} else {
		env.partNo = c.Part
		pos := align
		var starts []int64
		for _, s := range sizes {
			starts = append(starts, pos)
			pos += (s + align - 1) / align * align
		}
		diskSize = pos + align
		start = starts[c.Part-1]
		_ = start
		env.d = dev.New(diskSize)
		dk, err := env.open()
		if err != nil {
			r.Fail("open", "OpenBackend on a blank device: %v", err)
			return
		}
		if c.Place == "gpt" {
			tb := &gpt.Table{LogicalSectorSize: lss, PhysicalSectorSize: lss, ProtectiveMBR: true}
			for i, s := range sizes {
				tb.Partitions = append(tb.Partitions, &gpt.Partition{Index: i + 1, Start: uint64(starts[i] / int64(lss)), Size: uint64(s), Type: gpt.LinuxFilesystem, Name: fmt.Sprintf("p%d", i+1)})
			}
			err = dk.Partition(tb)
		} else {
			tb := &mbr.Table{LogicalSectorSize: lss, PhysicalSectorSize: lss}
			for i, s := range sizes {
				tb.Partitions = append(tb.Partitions, &mbr.Partition{Index: i + 1, Type: mbr.Linux, Start: uint32(starts[i] / 512), Size: uint32(s / 512)})
			}
			err = dk.Partition(tb)
		}
		if err != nil {
			r.Discard = true
			r.Note("Partition refused: %s", firstWords(err.Error(), 8))
			return
		}
	}
	if env.d == nil {
		env.d = dev.New(diskSize)
	}
	probe := mk.Content{Seed: c.Seed, Len: 700, Style: 2}.Bytes()
	if c.Place != "whole" || c.Stale != "" || isThreshold(c) {
		r.Nontrivial = true
	}
	// stale previous content
	staleMade := false
	if c.Stale == "garbage" {
		rangeStart := int64(0)
		if c.Place != "whole" {
			// recompute start of the target partition
			pos := align
			for i := 0; i < c.Part-1; i++ {
				pos += (sizes[i] + align - 1) / align * align
			}
			rangeStart = pos
		}
		// non-zero bytes over the first 4 MiB of the range (or all of it): every structure Create relies on must be
		// written by Create, not inherited (a FAT32 root cluster lies behind both FAT copies, beyond 256 KiB on larger volumes)
		glen := int64(4 << 20)
		if glen > c.Size {
			glen = c.Size
		}
		g := mk.Content{Seed: c.Seed + 1, Len: int(glen), Style: 0}.Bytes()
		for i := range g {
			if g[i] == 0 {
				g[i] = 0xA7
			}
		}
		env.d.Poke(rangeStart, g)
		r.Class("stale:garbage")
	} else if c.Stale != "" && c12FitSize(c.Stale, c.Size) {
		var serr error
		if p, pv, st := hx.Safe(func() { serr = env.makeFS(c.Stale, "OLD", []byte("previous filesystem")) }); p {
			r.Note("stale filesystem creation panicked: %v %s", pv, firstWords(st, 4))
			r.Discard = true
			return
		}
		if serr != nil {
			r.Discard = true
			r.Note("stale filesystem refused: %s", firstWords(serr.Error(), 8))
			return
		}
		r.Class("stale:" + c.Stale)
		staleMade = true
	}
	if c.T != "blank" {
		var merr error
		fin := hx.WithTimeout(6*watchdog(), func() {
			if p, pv, st := hx.Safe(func() { merr = env.makeFS(c.T, c.Label, probe) }); p {
				r.Fail("create-panic:"+panicKind(pv), "CreateFilesystem(%s) panicked: %v [%s]", c.T, pv, st)
			}
		})
		if !fin {
			r.Fail("create-hang", "CreateFilesystem(%s) did not return", c.T)
		}
		if r.Failed() {
			return
		}
		if merr != nil {
			r.Discard = true
			r.Class("create-refused")
			r.Note("create refused (%s): %s", c.T, firstWords(merr.Error(), 9))
			return
		}
	}
	// re-open from the bytes
	var dk *disk.Disk
	var err error
	if p, pv, st := hx.Safe(func() { dk, err = env.open() }); p {
		r.Fail("reopen-panic", "OpenBackend panicked: %v [%s]", pv, st)
		return
	}
	if err != nil {
		r.Fail("reopen", "OpenBackend on the written device: %v", err)
		return
	}
	if c.Place != "whole" {
		if dk.Table == nil {
			r.Fail("table-missing", "re-opened %s disk reports no partition table", c.Place)
			return
		}
		if dk.Table.Type() != c.Place {
			r.Fail("table-type", "re-opened %s disk reports table type %q", c.Place, dk.Table.Type())
			return
		}
	}
	if c.T == "squashfs" {
		dk.LogicalBlocksize = 4096
	}
	var fs filesystem.FileSystem
	fin := hx.WithTimeout(6*watchdog(), func() {
		if p, pv, st := hx.Safe(func() { fs, err = dk.GetFilesystem(env.partNo) }); p {
			r.Fail("getfs-panic:"+panicKind(pv), "GetFilesystem panicked: %v [%s]", pv, st)
		}
	})
	if !fin {
		r.Fail("getfs-hang", "GetFilesystem did not return")
	}
	if r.Failed() {
		return
	}
	if c.T == "blank" {
		if staleMade {
			return // not blank: that situation is the T = stale type case, generated on its own
		}
		if err == nil {
			r.Fail("blank-recognised", "GetFilesystem on a blank/garbage range returns a %s filesystem", fsTypeName(fs))
		}
		return
	}
	if err != nil {
		r.Fail("unrecognised:"+c.T, "a %s filesystem created by CreateFilesystem (%s, stale=%q) is not recognised: %v", c.T, c.Place, c.Stale, err)
		return
	}
	if fs.Type() != fsTypes[c.T] {
		r.Fail("misdetected:"+c.T+"-as-"+fsTypeName(fs), "a %s filesystem (%s, size %d, stale=%q) is reported as %s", c.T, c.Place, c.Size, c.Stale, fsTypeName(fs))
		return
	}
	// label and contents
	if c.T == "fat12" || c.T == "fat16" || c.T == "fat32" || c.T == "ext4" {
		got := strings.TrimRight(fs.Label(), " \x00")
		want := c.Label
		if want == "" {
			want = got // an empty label is stored as the format's default
		}
		if got != want {
			r.Fail("label:"+c.T, "%s label reads back %q, created with %q", c.T, got, c.Label)
			return
		}
	}
	name := "/PROBE.TXT"
	if c.T == "ext4" || c.T == "squashfs" {
		name = "probe.txt"
	}
	var data []byte
	fin = hx.WithTimeout(6*watchdog(), func() {
		if p, pv, st := hx.Safe(func() {
			var f filesystem.File
			f, err = fs.OpenFile(name, os.O_RDONLY)
			if err != nil {
				return
			}
			data, err = io.ReadAll(f)
		}); p {
			r.Fail("probe-panic", "reading the probe file panicked: %v [%s]", pv, st)
		}
	})
	if !fin {
		r.Fail("probe-hang", "reading the probe file did not return")
	}
	if r.Failed() {
		return
	}
	if err != nil || !bytes.Equal(data, probe) {
		r.Fail("contents:"+c.T, "probe file of the re-opened %s filesystem: err=%v, %s", c.T, err, diffAt(data, probe))
		return
	}
	// the root directory holds the probe file and nothing else: whatever was in the range before must not show through
	root := "." // ReadDir takes io/fs path forms on every filesystem type
	var ents []iofs.DirEntry
	fin = hx.WithTimeout(6*watchdog(), func() {
		if p, pv, st := hx.Safe(func() { ents, err = fs.ReadDir(root) }); p {
			r.Fail("readdir-panic", "listing the root directory of the re-opened %s filesystem panicked: %v [%s]", c.T, pv, st)
		}
	})
	if !fin {
		r.Fail("readdir-hang", "listing the root directory did not return")
	}
	if r.Failed() {
		return
	}
	if err != nil {
		r.Fail("rootdir:"+c.T, "the root directory of the re-opened %s filesystem (stale=%q) cannot be listed: %v", c.T, c.Stale, err)
		return
	}
	var names []string
	for _, e := range ents {
		if n := e.Name(); n != "lost+found" && n != "." && n != ".." {
			names = append(names, n)
		}
	}
	if len(names) != 1 || !strings.EqualFold(names[0], "probe.txt") {
		r.Fail("rootdir:"+c.T, "the root directory of the re-opened %s filesystem (%s, stale=%q) lists %q, only the probe file was created", c.T, c.Place, c.Stale, shortList(names))
	}
	return
}

func isThreshold(c c12Case) bool {
	switch c.T {
	case "fat12":
		return c.Size >= 8<<20-512
	case "fat16":
		return c.Size <= 4400<<10 || c.Size >= 32<<20
	case "fat32":
		return c.Size <= 2<<20 || c.Size == 33<<20 || c.Size == 34<<20
	}
	return false
}

func fsTypeName(fs filesystem.FileSystem) string {
	if fs == nil {
		return "<nil>"
	}
	for k, v := range fsTypes {
		if v == fs.Type() {
			return k
		}
	}
	return fmt.Sprintf("type%d", fs.Type())
}

func init() {
	hx.Register(&hx.Spec{ID: "C12", Gen: genC12, Exec: execC12, New: func() any { return new(c12Case) },
		Rule: "case = filesystem type (fat12/16/32, ext4, iso9660, squashfs, or none) x range size (type minimum/maximum and FAT cluster-count thresholds) x placement (whole disk, GPT partition k, MBR partition k) x stale previous filesystem of another type or garbage x label; created with Disk.CreateFilesystem, re-opened from the bytes with diskfs.OpenBackend; non-trivial = partition placement, a threshold size, or stale content; distinct by hash of the case JSON"})
}

func TestC12(t *testing.T) { hx.RunProp(t, "C12") }
