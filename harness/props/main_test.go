package props

import (
	"io"
	stdlog "log"
	"testing"

	log "github.com/sirupsen/logrus"

	"verifharness/hx"
)

func TestMain(m *testing.M) {
	log.SetOutput(io.Discard)
	stdlog.SetOutput(io.Discard)
	hx.Main(m)
}

// TestReplay re-executes the case in $VERIF_REPLAY with its property's oracle.
func TestReplay(t *testing.T) { hx.RunReplay(t) }
