package props

// C04 — ext4 behaves like a plain tree of files, directories and symlinks.
// C05 — every ext4 image the library produces is clean for e2fsck.

import (
	"testing"

	"pgregory.net/rapid"

	"verifharness/hx"
)

func genC04(t *rapid.T) any {
	return genE4History(t, e4GenOpts{prop: "C04", maxOps: 14})
}

func execC04(ci any) (r hx.Result) {
	c := ci.(e4Case)
	x := &e4Run{c: c, r: &r, doModel: true}
	x.run()
	if x.multiExtent || x.bigDir || x.createAfterRemove {
		r.Nontrivial = true
	}
	return
}

func genC05(t *rapid.T) any {
	o := e4GenOpts{prop: "C05", maxOps: 8, params: true}
	return genE4History(t, o)
}

func execC05(ci any) (r hx.Result) {
	c := ci.(e4Case)
	x := &e4Run{c: c, r: &r, doFsck: true, doModel: true}
	x.run()
	o := c.Cfg.Opts
	nonDefault := o.SectorsPerBlock != 0 || o.BlocksPerGroup != 0 || o.InodeRatio != 0 || o.InodeCount != 0 || o.SparseSuper != 0 || o.LogFlex != 0 ||
		o.Journal != nil || o.MetaCsum != nil || o.Bit64 != nil || o.FlexBG != nil || o.HugeFile != nil || o.DirIndex != nil || o.ResizeIno != nil || o.GdtCsum != nil
	if !r.Discard && (nonDefault || x.sawRemove || x.sawRefusal) && x.fsckRuns > 0 {
		r.Nontrivial = true
	}
	return
}

func init() {
	hx.Register(&hx.Spec{ID: "C04", Gen: genC04, Exec: execC04, New: func() any { return new(e4Case) },
		Rule: "case = ext4 configuration (1 KiB / 4 KiB blocks, journal and metadata_csum on/off, start offset) + history (mkdir, create, write-at-offset, append, interleaved appends forcing many extents, symlink short/long, remove, chmod, chown, chtimes, populate a directory (also with long names and a block of content per file), remove most of a directory, fill to the last byte, fill-remove-grow, data in one or two Write calls per handle, reopen); after every step listings, contents, link targets and set attributes are compared with the reference model; non-trivial = some file reached >= 2 extents (interleaved/appended growth), or a directory grew past one block, or a create after a remove; distinct by hash of the case JSON"})
	hx.Register(&hx.Spec{ID: "C05", Gen: genC05, Exec: execC05, New: func() any { return new(e4Case) },
		Rule: "case = ext4 Create parameter set (block size, blocks per group, inode ratio/count, 64bit, flex_bg + log groups, huge_file, dir_index, resize_inode, gdt_csum/metadata_csum, journal, sparse_super2, label; sets Create refuses are discarded) x volume size x history; after Create and after every step the volume is written to scratch and e2fsck -f -n must exit 0; at the end debugfs rdump must extract exactly the model tree; non-trivial = non-default parameter set or a history with a remove or a refused operation; distinct by hash of the case JSON"})
}

func TestC04(t *testing.T) { hx.RunProp(t, "C04") }
func TestC05(t *testing.T) { hx.RunProp(t, "C05") }
