package props

// ext4 operation histories: generator, executor and oracles shared by C04
// (reference model), C05 (e2fsck/debugfs), C03 (range guard), C19 (metadata).

import (
	"bytes"
	"fmt"
	"io"
	iofs "io/fs"
	"os"
	"sort"
	"strings"
	"time"

	"github.com/diskfs/go-diskfs/filesystem/ext4"
	"pgregory.net/rapid"

	"verifharness/dev"
	"verifharness/hx"
	"verifharness/indep"
	"verifharness/mk"
	"verifharness/model"
)

type e4Cfg struct {
	Size  int64     `json:"size"`
	Start int64     `json:"start"`
	Tail  int64     `json:"tail"`
	Opts  mk.E4Opts `json:"opts"`
}

type e4Op struct {
	K     string     `json:"k"`
	P     string     `json:"p,omitempty"`
	Q     string     `json:"q,omitempty"` // symlink target / second file
	Off   int64      `json:"off,omitempty"`
	D     mk.Content `json:"d,omitempty"`
	N     int        `json:"n,omitempty"`
	Chunk int        `json:"chunk,omitempty"`
	Mode  uint32     `json:"mode,omitempty"`
	UID   int        `json:"uid,omitempty"`
	GID   int        `json:"gid,omitempty"`
	T1    int64      `json:"t1,omitempty"` // ctime (creation) seconds
	T2    int64      `json:"t2,omitempty"` // atime
	T3    int64      `json:"t3,omitempty"` // mtime
	NS    int        `json:"ns,omitempty"`
}

type e4Case struct {
	Cfg e4Cfg  `json:"cfg"`
	Ops []e4Op `json:"ops"`
}

type e4GenOpts struct {
	prop      string
	maxOps    int
	forceFill bool
	params    bool // draw non-default Create parameters (C05)
	attrs     bool
	noRemove  bool
}

func (c e4Cfg) blockSize() int {
	if c.Opts.SectorsPerBlock != 0 {
		return int(c.Opts.SectorsPerBlock) * 512
	}
	if c.Size < 512<<20 {
		return 1024
	}
	return 4096
}

func bp(b bool) *bool { return &b }

func genE4Cfg(t *rapid.T, o e4GenOpts) e4Cfg {
	c := e4Cfg{}
	c.Start = rapid.SampledFrom([]int64{0, 0, 1 << 20, 1<<32 + 1<<20}).Draw(t, "start")
	c.Tail = rapid.SampledFrom([]int64{0, 1 << 20}).Draw(t, "tail")
	mode := rapid.IntRange(0, 5).Draw(t, "e4mode")
	switch {
	case mode <= 3: // 1 KiB blocks (library default below 512 MiB)
		c.Size = rapid.SampledFrom([]int64{8 << 20, 16<<20 + 1536, 20 << 20, 33 << 20, 64 << 20}).Draw(t, "size1k")
	default: // 4 KiB blocks; resize_inode needs backup groups, switch it off for small volumes
		c.Size = rapid.SampledFrom([]int64{32 << 20, 96 << 20, 130 << 20}).Draw(t, "size4k")
		c.Opts.SectorsPerBlock = 8
		c.Opts.ResizeIno = bp(false)
	}
	if rapid.IntRange(0, 2).Draw(t, "journal") == 0 {
		c.Opts.Journal = bp(false)
	}
	if rapid.IntRange(0, 2).Draw(t, "metacsum") == 0 {
		c.Opts.MetaCsum = bp(rapid.Bool().Draw(t, "metacsumV"))
	}
	if o.params {
		genE4Params(t, &c)
	}
	// known finding KF-E4-GROUPCOUNT: a last group of only a few blocks is mis-described
	bs := int64(c.blockSize())
	bpg := int64(c.Opts.BlocksPerGroup)
	if bpg == 0 {
		bpg = 8 * bs
	}
	if rem := (c.Size / bs) % bpg; rem > 0 && rem <= 8 {
		if hx.Active("KF-E4-GROUPCOUNT") {
			hx.Excluded(o.prop, "KF-E4-GROUPCOUNT")
			c.Size -= rem * bs
			c.Size -= c.Size % bs
		}
	}
	return c
}

// ---------- generator ----------

func genE4History(t *rapid.T, o e4GenOpts) e4Case {
	c := e4Case{Cfg: genE4Cfg(t, o)}
	bs := c.Cfg.blockSize()
	m := model.New(model.Exact)
	_ = m.Mkdir("lost+found")
	counter := 0
	sizes := []int{0, 1, bs - 1, bs, bs + 1, 2*bs + 1, 4 * bs, 5*bs + 17, 12 * bs}
	content := func(label string) mk.Content {
		counter++
		n := 0
		if rapid.IntRange(0, 3).Draw(t, label+"Mode") == 0 {
			n = rapid.IntRange(0, 20*bs).Draw(t, label)
		} else {
			n = rapid.SampledFrom(sizes).Draw(t, label+"B")
		}
		return mk.Content{Seed: uint32(counter), Len: n, Style: rapid.SampledFrom([]int{0, 0, 2}).Draw(t, label+"Style")}
	}
	split := func(ct mk.Content) int {
		if ct.Len < 2 || rapid.IntRange(0, 2).Draw(t, "splitWrite") != 0 {
			return 0
		}
		return rapid.SampledFrom([]int{1, ct.Len / 2, ct.Len - 1}).Draw(t, "splitAt")
	}
	newName := func(dir string) string {
		dn := m.Lookup(dir)
		used := map[string]bool{}
		for _, ch := range dn.Children {
			used[ch.Name] = true
		}
		counter++
		return genName(t, "posix", used, counter)
	}
	pickDir := func() string {
		var ds []string
		for _, d := range m.Dirs() {
			if d != "lost+found" {
				ds = append(ds, d)
			}
		}
		return rapid.SampledFrom(ds).Draw(t, "dir")
	}
	lastTimes := map[string]e4Op{}
	nops := rapid.IntRange(1, o.maxOps).Draw(t, "nops")
	for i := 0; i < nops; i++ {
		files := m.Files()
		var all []string
		for _, p := range m.All() {
			if p != "lost+found" {
				all = append(all, p)
			}
		}
		kinds := []string{"create", "create", "mkdir", "symlink"}
		if len(files) > 0 {
			kinds = append(kinds, "write", "write", "append", "append", "interleave")
		}
		if len(all) > 0 {
			kinds = append(kinds, "reopen")
			if !o.noRemove {
				kinds = append(kinds, "remove", "remove")
				if len(files) >= 2 && rapid.IntRange(0, 3).Draw(t, "squeezeChance") == 0 {
					kinds = append(kinds, "squeeze")
				}
			}
			if o.attrs {
				for k := 0; k < 5; k++ {
					kinds = append(kinds, "chmod", "chown", "chtimes")
				}
			} else {
				kinds = append(kinds, "chmod", "chown", "chtimes")
			}
		}
		kinds = append(kinds, "populate")
		if !o.noRemove && len(files) >= 8 {
			kinds = append(kinds, "depopulate")
		}
		if o.forceFill || rapid.IntRange(0, 6).Draw(t, "fillChance") == 0 {
			kinds = append(kinds, "fill")
		}
		k := rapid.SampledFrom(kinds).Draw(t, "op")
		switch k {
		case "mkdir":
			d := pickDir()
			p := model.Join(d, newName(d))
			if rapid.IntRange(0, 4).Draw(t, "nested") == 0 {
				p = model.Join(p, "sub")
			}
			_ = m.Mkdir(p)
			c.Ops = append(c.Ops, e4Op{K: "mkdir", P: p})
		case "create":
			d := pickDir()
			p := model.Join(d, newName(d))
			n, _ := m.Create(p)
			ct := content("createLen")
			if n != nil {
				n.WriteAt(0, ct.Bytes())
			}
			c.Ops = append(c.Ops, e4Op{K: "create", P: p, D: ct, N: split(ct)})
		case "write":
			p := rapid.SampledFrom(files).Draw(t, "wfile")
			n := m.Lookup(p)
			sz := int64(len(n.Data))
			var off int64
			switch rapid.IntRange(0, 4).Draw(t, "offMode") {
			case 0:
				off = 0
			case 1:
				off = sz
			case 2:
				off = sz + int64(rapid.SampledFrom([]int{1, bs - 1, bs, bs + 1, 3*bs + 5}).Draw(t, "past"))
			default:
				if sz > 0 {
					off = int64(rapid.IntRange(0, int(sz)).Draw(t, "inside"))
				}
			}
			ct := content("writeLen")
			n.WriteAt(off, ct.Bytes())
			c.Ops = append(c.Ops, e4Op{K: "write", P: p, Off: off, D: ct, N: split(ct)})
		case "append":
			p := rapid.SampledFrom(files).Draw(t, "afile")
			ct := content("appendLen")
			n := m.Lookup(p)
			n.WriteAt(int64(len(n.Data)), ct.Bytes())
			c.Ops = append(c.Ops, e4Op{K: "append", P: p, D: ct, N: split(ct)})
		case "interleave":
			// appends of one block to two files, k rounds: forces many non-mergeable extents
			p := rapid.SampledFrom(files).Draw(t, "ifile")
			d := pickDir()
			q := model.Join(d, newName(d))
			// 4 extents fit in the inode, 84 (1 KiB blocks) or 340 (4 KiB) in one leaf block: the larger round
			// counts push the tree through its first and second leaf split
			rounds := rapid.SampledFrom([]int{2, 5, 6, 12, 40, 40, 90, 180, 350}).Draw(t, "irounds")
			chunk := rapid.SampledFrom([]int{bs, bs, 2 * bs, bs + 3}).Draw(t, "ichunk")
			counter++
			np := m.Lookup(p)
			nq, _ := m.Create(q)
			for r := 0; r < rounds; r++ {
				np.WriteAt(int64(len(np.Data)), mk.Content{Seed: uint32(counter*1000 + 2*r), Len: chunk}.Bytes())
				nq.WriteAt(int64(len(nq.Data)), mk.Content{Seed: uint32(counter*1000 + 2*r + 1), Len: chunk}.Bytes())
			}
			c.Ops = append(c.Ops, e4Op{K: "interleave", P: p, Q: q, N: rounds, Chunk: chunk, D: mk.Content{Seed: uint32(counter * 1000)}})
		case "symlink":
			d := pickDir()
			p := model.Join(d, newName(d))
			var target string
			switch rapid.IntRange(0, 3).Draw(t, "linkMode") {
			case 0:
				target = strings.Repeat("s", rapid.SampledFrom([]int{1, 58, 59, 60, 61, 200, 300}).Draw(t, "linkLen"))
			case 1:
				target = "/abs/" + rapid.StringMatching(`[a-z]{1,12}`).Draw(t, "linkAbs")
			default:
				target = "../" + rapid.StringMatching(`[a-z/]{1,30}`).Draw(t, "linkRel")
			}
			_ = m.Symlink(target, p)
			c.Ops = append(c.Ops, e4Op{K: "symlink", P: p, Q: target})
		case "remove":
			p := rapid.SampledFrom(all).Draw(t, "rmany")
			_ = m.Remove(p)
			c.Ops = append(c.Ops, e4Op{K: "remove", P: p})
		case "reopen":
			c.Ops = append(c.Ops, e4Op{K: "reopen"})
		case "chmod":
			p := pickNonLink(t, m, all)
			if p == "" {
				continue
			}
			c.Ops = append(c.Ops, e4Op{K: "chmod", P: p, Mode: uint32(rapid.SampledFrom([]int{0, 0o644, 0o600, 0o755, 0o777, 0o4755, 0o2755, 0o1777, 0o7777, 0o4000, 0o2000, 0o1000, 0o444, 0o111, 0o007}).Draw(t, "mode"))})
		case "chown":
			p := pickNonLink(t, m, all)
			if p == "" {
				continue
			}
			ids := []int{-1, 0, 1, 1000, 65534, 65535, 65536, 100000, 2147483647, 4294967295}
			c.Ops = append(c.Ops, e4Op{K: "chown", P: p, UID: rapid.SampledFrom(ids).Draw(t, "uid"), GID: rapid.SampledFrom(ids).Draw(t, "gid")})
		case "chtimes":
			p := pickNonLink(t, m, all)
			if p == "" {
				continue
			}
			ts := []int64{-2147483648, -1, 0, 1, 946684800, 1700000000, 2147483647, 2147483648, 4294967295, 4294967296, 15032385535}
			op := e4Op{K: "chtimes", P: p, T1: rapid.SampledFrom(ts).Draw(t, "ct"), T2: rapid.SampledFrom(ts).Draw(t, "at"), T3: rapid.SampledFrom(ts).Draw(t, "mt"), NS: rapid.SampledFrom([]int{0, 0, 1, 999999999, 500000000}).Draw(t, "ns")}
			if prev, ok := lastTimes[p]; ok && rapid.IntRange(0, 2).Draw(t, "sameTwo") == 0 {
				// change one of the three times only: the other two repeat the previous call on this node exactly
				switch rapid.IntRange(0, 2).Draw(t, "whichTime") {
				case 0:
					op.T2, op.T3, op.NS = prev.T2, prev.T3, prev.NS
				case 1:
					op.T1, op.T3, op.NS = prev.T1, prev.T3, prev.NS
				default:
					op.T1, op.T2, op.NS = prev.T1, prev.T2, prev.NS
				}
			}
			lastTimes[p] = op
			c.Ops = append(c.Ops, op)
		case "populate":
			d := pickDir()
			counter++
			// Chunk 0: short names, empty files; 1: long names, empty files; 2: 200-byte names and one block of content
			// per file, so that the directory's blocks are separated by data blocks (a fifth non-mergeable
			// directory extent forces the re-layout branch of writeDirectory)
			c.Ops = append(c.Ops, e4Op{K: "populate", P: d, N: rapid.SampledFrom([]int{10, 40, 90, 200}).Draw(t, "popN"), D: mk.Content{Seed: uint32(counter)}, Chunk: rapid.SampledFrom([]int{0, 0, 1, 2, 2}).Draw(t, "popLong")})
			dn := m.Lookup(d)
			for j := 0; j < c.Ops[len(c.Ops)-1].N; j++ {
				nm := e4PopName(c.Ops[len(c.Ops)-1], j)
				if dn.Children[nm] == nil {
					if n, _ := m.Create(model.Join(d, nm)); n != nil {
						n.WriteAt(0, e4PopData(c.Ops[len(c.Ops)-1], j, bs))
					}
				}
			}
		case "depopulate":
			// remove most files of the directory that holds the most: a directory that had grown past one
			// block then owns more blocks than its entries need
			best, bestN := "", 0
			for _, d := range m.Dirs() {
				cnt := 0
				if dn := m.Lookup(d); dn != nil {
					for _, ch := range dn.Children {
						if !ch.Dir {
							cnt++
						}
					}
				}
				if cnt > bestN {
					best, bestN = d, cnt
				}
			}
			keep := rapid.SampledFrom([]int{0, 1, 3, bestN / 3}).Draw(t, "depKeep")
			op := e4Op{K: "depopulate", P: best, N: keep}
			for _, nm := range e4DepopulateNames(m.Lookup(best), keep) {
				_ = m.Remove(model.Join(best, nm))
			}
			c.Ops = append(c.Ops, op)
		case "squeeze":
			vi := rapid.IntRange(0, len(files)-1).Draw(t, "sqzVictim")
			gi := rapid.IntRange(0, len(files)-2).Draw(t, "sqzGrow")
			if gi >= vi {
				gi++
			}
			counter++
			if vn, gn := m.Lookup(files[vi]), m.Lookup(files[gi]); vn != nil && gn != nil {
				n := len(vn.Data)
				_ = m.Remove(files[vi])
				gn.WriteAt(int64(len(gn.Data)), make([]byte, n))
			}
			c.Ops = append(c.Ops, e4Op{K: "squeeze", P: files[vi], Q: files[gi], Chunk: int(c.Cfg.Size/24) + rapid.IntRange(0, 700).Draw(t, "sqzOdd"), D: mk.Content{Seed: uint32(counter)}})
		case "fill":
			d := pickDir()
			counter++
			p := model.Join(d, fmt.Sprintf("fill%d.bin", counter))
			chunk := int(c.Cfg.Size / 24)
			c.Ops = append(c.Ops, e4Op{K: "fill", P: p, Chunk: chunk + rapid.IntRange(0, 700).Draw(t, "fillOdd"), D: mk.Content{Seed: uint32(counter)}})
		}
	}
	return c
}

func pickNonLink(t *rapid.T, m *model.Tree, all []string) string {
	var c []string
	for _, p := range all {
		if n := m.Lookup(p); n != nil && !n.Link {
			c = append(c, p)
		}
	}
	if len(c) == 0 {
		return ""
	}
	return rapid.SampledFrom(c).Draw(t, "attrTarget")
}

// e4DepopulateNames lists the non-directory children of a directory that a depopulate op removes:
// all but the first keep ones in name order, last names first.
func e4DepopulateNames(dn *model.Node, keep int) []string {
	if dn == nil {
		return nil
	}
	var names []string
	for _, ch := range dn.Children {
		if !ch.Dir {
			names = append(names, ch.Name)
		}
	}
	sort.Strings(names)
	if keep < 0 {
		keep = 0
	}
	if keep >= len(names) {
		return nil
	}
	out := append([]string(nil), names[keep:]...)
	for i, j := 0, len(out)-1; i < j; i, j = i+1, j-1 {
		out[i], out[j] = out[j], out[i]
	}
	return out
}

// e4PopData is the content of the j-th file of a populate op (only style 2 writes any).
func e4PopData(op e4Op, j, bs int) []byte {
	if op.Chunk != 2 {
		return nil
	}
	return mk.Content{Seed: op.D.Seed*4096 + uint32(j), Len: bs + j%3}.Bytes()
}

func e4PopName(op e4Op, j int) string {
	if op.Chunk == 2 {
		return fmt.Sprintf("%s-%04d-of-batch-%d", strings.Repeat("very-long-name-", 13), j, op.D.Seed)
	}
	if op.Chunk == 1 {
		return fmt.Sprintf("populated-entry-with-a-long-name-%04d-of-batch-%d.dat", j, op.D.Seed)
	}
	return fmt.Sprintf("p%d_%04d", op.D.Seed, j)
}

// ---------- executor ----------

type e4Run struct {
	nextSplit         int  // split point of the next openWrite's data (two Write calls on one handle)
	doFrame           bool // C19: changing one attribute of one node changes nothing else
	guardOnly         bool // C03: only containment is judged; a panic/hang aborts the history with a note
	aborted           bool
	c                 e4Case
	r                 *hx.Result
	d                 *dev.Device
	fs                *ext4.FileSystem
	m                 *model.Tree
	doModel           bool
	doFsck            bool
	doGuard           bool
	doAttrs           bool
	step              int
	opName            string
	scratch           string
	sawRefusal        bool
	sawRemove         bool
	createAfterRemove bool
	multiExtent       bool
	bigDir            bool
	sawReopen         bool
	fsckRuns          int
	specialMeta       bool
}

func (x *e4Run) fail(sig, f string, a ...any) {
	// known finding KF-E4-LAYOUTCOMBO: Create with two or more non-default layout parameters
	// produces volumes that are broken in many different ways; anything that goes wrong at the
	// Create step of such a case is attributed to it (single-parameter deviations are not).
	if x.opName == "Create" && layoutParamCount(x.c.Cfg.Opts) >= 2 && hx.Active("KF-E4-LAYOUTCOMBO") {
		if !x.aborted {
			hx.Excluded("C05", "KF-E4-LAYOUTCOMBO")
		}
		x.aborted = true
		return
	}
	if !x.r.Failed() {
		x.r.Fail(sig, "step %d (%s): %s", x.step, x.opName, fmt.Sprintf(f, a...))
	}
}

func (x *e4Run) call(what string, f func() error) (err error, ok bool) {
	fin := hx.WithTimeout(watchdog(), func() {
		if p, pv, st := hx.Safe(func() { err = f() }); p {
			if x.guardOnly {
				x.r.Note("history aborted: %s panicked (%s)", firstWords(what, 1), panicKind(pv))
				x.aborted = true
				return
			}
			x.fail("panic:"+panicKind(pv), "%s panicked: %v [%s]", what, pv, st)
		}
	})
	if !fin {
		if x.guardOnly {
			x.r.Note("history aborted: %s hung", firstWords(what, 1))
			x.aborted = true
			return nil, false
		}
		x.fail("hang", "%s did not return within %v", what, watchdog())
		return nil, false
	}
	return err, !x.r.Failed() && !x.aborted
}

func (x *e4Run) devSize() int64 { return x.c.Cfg.Start + x.c.Cfg.Size + x.c.Cfg.Tail }

func (x *e4Run) create() bool {
	cfg := x.c.Cfg
	x.d = dev.New(x.devSize())
	if cfg.Start > 0 {
		x.d.AddPattern(0, cfg.Start)
	}
	if cfg.Tail > 0 {
		x.d.AddPattern(cfg.Start+cfg.Size, x.devSize())
	}
	if x.doGuard {
		x.d.Guard([]dev.Interval{{Lo: cfg.Start, Hi: cfg.Start + cfg.Size}})
	}
	x.opName = "Create"
	var perr any
	err, ok := func() (error, bool) {
		var err error
		fin := hx.WithTimeout(4*watchdog(), func() {
			if p, pv, _ := hx.Safe(func() { x.fs, err = mk.CreateExt4(x.d, cfg.Size, cfg.Start, cfg.Opts) }); p {
				perr = pv
			}
		})
		return err, fin
	}()
	if !ok {
		x.fail("hang", "Create did not return")
		return false
	}
	if perr != nil {
		// the statement speaks of parameter sets the API accepts; a panic is neither acceptance nor a clean refusal
		x.r.Discard = true
		x.r.Note("Create panicked (outside the stated domain): %s", firstWords(fmt.Sprint(perr), 10))
		return false
	}
	if err != nil {
		x.r.Discard = true
		x.r.Class("create-refused")
		x.r.Note("Create refused: %s", firstWords(err.Error(), 10))
		return false
	}
	return true
}

func (x *e4Run) reopen() {
	cfg := x.c.Cfg
	err, ok := x.call("Read", func() error {
		fs, err := ext4.Read(x.d, cfg.Size, cfg.Start, 512)
		if err == nil {
			x.fs = fs
		}
		return err
	})
	if ok && err != nil {
		x.fail("reopen", "re-opening the volume from its bytes fails: %v", err)
	}
	x.sawReopen = true
}

func (x *e4Run) openWrite(p string, flag int, seek int64, data []byte, readBack bool) error {
	var outErr error
	x.call("OpenFile/Write "+p, func() error {
		f, err := x.fs.OpenFile(p, flag)
		if err != nil {
			outErr = fmt.Errorf("open: %w", err)
			return nil
		}
		defer f.Close()
		if seek > 0 {
			if _, err := f.Seek(seek, io.SeekStart); err != nil {
				outErr = fmt.Errorf("seek: %w", err)
				return nil
			}
		}
		// optionally in two Write calls on the same handle with no Seek in between (see the FAT executor)
		pieces := [][]byte{data}
		if sp := x.nextSplit; sp > 0 && sp < len(data) {
			pieces = [][]byte{data[:sp], data[sp:]}
			x.r.Class("write-in-two-calls")
		}
		x.nextSplit = 0
		for _, piece := range pieces {
			if len(piece) == 0 {
				continue
			}
			n, err := f.Write(piece)
			if err != nil {
				outErr = fmt.Errorf("write: %w", err)
				return nil
			}
			if n != len(piece) {
				outErr = fmt.Errorf("short write %d of %d", n, len(piece))
				return nil
			}
		}
		if n := x.m.Lookup(p); n != nil && len(data) > 0 {
			if mm := e4MetaStore[n]; mm != nil {
				mm.timesSet = false // a content write may legitimately move the timestamps
			}
		}
		if x.doModel && flag&os.O_APPEND == 0 && len(data) > 0 {
			// the handle's cursor stands behind the last byte written (io.Seeker: Seek(0, SeekCurrent) reports it)
			if pos, err := f.Seek(0, io.SeekCurrent); err == nil && pos != seek+int64(len(data)) {
				x.fail("cursor-after-write", "%s: after Seek(%d) and writing %d bytes the cursor stands at %d, not at %d", p, seek, len(data), pos, seek+int64(len(data)))
				return nil
			}
		}
		if readBack && x.doModel {
			if _, err := f.Seek(0, io.SeekStart); err != nil {
				x.fail("samehandle-seek", "Seek(0) on the writing handle of %s: %v", p, err)
				return nil
			}
			got, err := io.ReadAll(f)
			if err != nil {
				x.fail("samehandle-read", "reading %s back through the handle that wrote it: %v", p, err)
				return nil
			}
			if n := x.m.Lookup(p); n != nil && !bytes.Equal(got, n.Data) {
				x.fail("samehandle-content", "%s read back through the writing handle differs from the model (%s)", p, diffAt(got, n.Data))
			}
		}
		return nil
	})
	return outErr
}

func (x *e4Run) resync(p string) {
	x.m.Drop(p)
	dir, base := "", p
	if i := strings.LastIndex(p, "/"); i >= 0 {
		dir, base = p[:i], p[i+1:]
	}
	if x.m.Lookup(dir) == nil {
		return
	}
	rd := dir
	if rd == "" {
		rd = "."
	}
	var ents []iofs.DirEntry
	if _, ok := x.call("ReadDir "+rd, func() error {
		var err error
		ents, err = x.fs.ReadDir(rd)
		return err
	}); !ok {
		return
	}
	for _, e := range ents {
		if e.Name() != base {
			continue
		}
		switch {
		case e.IsDir():
			_ = x.m.Mkdir(p)
		case e.Type()&iofs.ModeSymlink != 0:
			var tgt string
			x.call("ReadLink", func() error {
				var err error
				tgt, err = x.fs.ReadLink(p)
				return err
			})
			_ = x.m.Symlink(tgt, p)
		default:
			n, _ := x.m.Create(p)
			var data []byte
			x.call("ReadFile "+p, func() error {
				var err error
				data, err = x.fs.ReadFile(p)
				return err
			})
			if n != nil {
				n.Data = data
			}
		}
		return
	}
}

func (x *e4Run) compare(label string) {
	if !x.doModel || x.r.Failed() {
		return
	}
	for _, d := range x.m.Dirs() {
		if d == "lost+found" {
			continue
		}
		rd := d
		if rd == "" {
			rd = "."
		}
		var ents []iofs.DirEntry
		err, ok := x.call("ReadDir "+rd, func() error {
			var err error
			ents, err = x.fs.ReadDir(rd)
			return err
		})
		if !ok {
			return
		}
		if err != nil {
			x.fail("listing-error", "%s: ReadDir(%q) fails: %v", label, rd, err)
			return
		}
		var got []string
		kind := map[string]string{}
		for _, e := range ents {
			got = append(got, e.Name())
			switch {
			case e.IsDir():
				kind[e.Name()] = "dir"
			case e.Type()&iofs.ModeSymlink != 0:
				kind[e.Name()] = "link"
			default:
				kind[e.Name()] = "file"
			}
		}
		sort.Strings(got)
		dn := x.m.Lookup(d)
		want := dn.ChildNames()
		if d == "" && dn.Children["lost+found"] == nil {
			// tolerate a lost+found the library created
			var g2 []string
			for _, g := range got {
				if g != "lost+found" {
					g2 = append(g2, g)
				}
			}
			got = g2
		}
		if strings.Join(got, "\x00") != strings.Join(want, "\x00") {
			x.fail("listing", "%s: directory %q lists %s, model has %s", label, rd, shortList(got), shortList(want))
			return
		}
		for _, ch := range dn.Children {
			wk := "file"
			if ch.Dir {
				wk = "dir"
			} else if ch.Link {
				wk = "link"
			}
			if kind[ch.Name] != wk {
				x.fail("kind", "%s: %q in %q reported as %s, model says %s", label, ch.Name, rd, kind[ch.Name], wk)
				return
			}
		}
	}
	x.m.Walk(func(p string, n *model.Node) {
		if x.r.Failed() || p == "lost+found" {
			return
		}
		switch {
		case n.Link:
			var tgt string
			err, ok := x.call("ReadLink "+p, func() error {
				var err error
				tgt, err = x.fs.ReadLink(p)
				return err
			})
			if !ok {
				return
			}
			if err != nil {
				x.fail("readlink-error", "%s: ReadLink(%q) fails: %v", label, p, err)
				return
			}
			if tgt != n.Target {
				x.fail("readlink", "%s: ReadLink(%q) = %q (len %d), model %q (len %d)", label, p, clip(tgt), len(tgt), clip(n.Target), len(n.Target))
			}
		case !n.Dir:
			var data []byte
			err, ok := x.call("ReadFile "+p, func() error {
				var err error
				data, err = x.fs.ReadFile(p)
				return err
			})
			if !ok {
				return
			}
			if err != nil {
				x.fail("content-error", "%s: ReadFile(%q) fails: %v", label, p, err)
				return
			}
			if !bytes.Equal(data, n.Data) {
				x.fail("content", "%s: %q differs from the model (%s)", label, p, diffAt(data, n.Data))
				return
			}
		}
		if n.HasMeta && !n.Link {
			x.checkMeta(label, p, n)
		}
	})
}

func clip(s string) string {
	if len(s) > 70 {
		return s[:70] + "..."
	}
	return s
}

func shortList(l []string) string {
	if len(l) > 12 {
		return fmt.Sprintf("%d names %q ...", len(l), l[:12])
	}
	return fmt.Sprintf("%q", l)
}

func modeBits(m os.FileMode) uint32 {
	v := uint32(m.Perm())
	if m&os.ModeSetuid != 0 {
		v |= 0o4000
	}
	if m&os.ModeSetgid != 0 {
		v |= 0o2000
	}
	if m&os.ModeSticky != 0 {
		v |= 0o1000
	}
	return v
}

func toFileMode(v uint32) os.FileMode {
	m := os.FileMode(v & 0o777)
	if v&0o4000 != 0 {
		m |= os.ModeSetuid
	}
	if v&0o2000 != 0 {
		m |= os.ModeSetgid
	}
	if v&0o1000 != 0 {
		m |= os.ModeSticky
	}
	return m
}

type e4Meta struct {
	modeSet    bool
	mode       uint32
	uidSet     bool
	uid        uint32
	gidSet     bool
	gid        uint32
	timesSet   bool
	ct, at, mt time.Time
}

var e4MetaStore = map[*model.Node]*e4Meta{}

func (x *e4Run) meta(n *model.Node) *e4Meta {
	mm := e4MetaStore[n]
	if mm == nil {
		mm = &e4Meta{}
		e4MetaStore[n] = mm
	}
	return mm
}

func (x *e4Run) checkMeta(label, p string, n *model.Node) {
	mm := e4MetaStore[n]
	if mm == nil {
		return
	}
	var fi iofs.FileInfo
	err, ok := x.call("Stat "+p, func() error {
		var err error
		fi, err = x.fs.Stat(p)
		return err
	})
	if !ok {
		return
	}
	if err != nil {
		x.fail("stat-error", "%s: Stat(%q) fails: %v", label, p, err)
		return
	}
	if fi.IsDir() != n.Dir {
		x.fail("stat-kind", "%s: Stat(%q).IsDir=%v, model %v", label, p, fi.IsDir(), n.Dir)
		return
	}
	if mm.modeSet && modeBits(fi.Mode()) != mm.mode {
		x.fail("meta-mode", "%s: %q mode bits %04o, set to %04o", label, p, modeBits(fi.Mode()), mm.mode)
		return
	}
	st, _ := fi.Sys().(*ext4.StatT)
	if st == nil {
		x.fail("stat-sys", "%s: Stat(%q).Sys() is not *ext4.StatT", label, p)
		return
	}
	if mm.uidSet && st.UID != mm.uid {
		x.fail("meta-uid", "%s: %q uid %d, set to %d", label, p, st.UID, mm.uid)
		return
	}
	if mm.gidSet && st.GID != mm.gid {
		x.fail("meta-gid", "%s: %q gid %d, set to %d", label, p, st.GID, mm.gid)
		return
	}
	if mm.timesSet {
		if !fi.ModTime().Equal(mm.mt) {
			x.fail("meta-mtime", "%s: %q mtime %v, set to %v", label, p, fi.ModTime().UTC(), mm.mt.UTC())
			return
		}
		if !st.AccessTime.Equal(mm.at) {
			x.fail("meta-atime", "%s: %q atime %v, set to %v", label, p, st.AccessTime.UTC(), mm.at.UTC())
			return
		}
		if !st.CreateTime.Equal(mm.ct) {
			x.fail("meta-crtime", "%s: %q creation time %v, set to %v", label, p, st.CreateTime.UTC(), mm.ct.UTC())
			return
		}
	}
}

func (x *e4Run) structural(label string) {
	if x.r.Failed() {
		return
	}
	cfg := x.c.Cfg
	if x.doGuard {
		if esc := x.d.Escapes(); len(esc) > 0 {
			x.fail("escape", "%s: WriteAt(off=%d,len=%d) lies outside the volume's range [%d,%d)", label, esc[0].Off, esc[0].Len, cfg.Start, cfg.Start+cfg.Size)
			return
		}
		if off := x.d.OutsideDiff([]dev.Interval{{Lo: cfg.Start, Hi: cfg.Start + cfg.Size}}); off >= 0 {
			x.fail("guard-bytes", "%s: device byte %d outside the volume's range [%d,%d) changed", label, off, cfg.Start, cfg.Start+cfg.Size)
			return
		}
	}
	if x.doFsck {
		x.fsck(label)
	}
}

func (x *e4Run) fsck(label string) {
	cfg := x.c.Cfg
	if x.scratch == "" {
		dir, err := os.MkdirTemp("", "verif_e2")
		if err != nil {
			x.r.Note("scratch dir: %v", err)
			return
		}
		x.scratch = dir
	}
	img := x.scratch + "/img"
	if err := x.d.WriteRangeTo(img, cfg.Start, cfg.Start+cfg.Size); err != nil {
		x.r.Note("cannot write scratch image: %v", err)
		return
	}
	x.fsckRuns++
	res := indep.E2fsck(img)
	if res.Infra != "" {
		x.r.Note("e2fsck infrastructure: %s", res.Infra)
		return
	}
	if res.Exit != 0 {
		if kf := x.knownFsck(res); kf != "" {
			hx.Excluded("C05", kf)
			x.aborted = true // the rest of this history lies inside the recorded finding's region
			return
		}
		x.fail("e2fsck:"+res.Sig(), "%s: e2fsck -f -n exits %d: %s", label, res.Exit, res.Problems())
	}
}

// knownFsck matches an e2fsck report against recorded findings whose region is defined by the
// report itself (every problem line must belong to the finding) plus a configuration predicate.
func (x *e4Run) knownFsck(res indep.FsckResult) string {
	o := x.c.Cfg.Opts
	if hx.Active("KF-E4-EXTCSUM") && o.MetaCsum != nil && *o.MetaCsum {
		ok, n := true, 0
		for _, l := range strings.Split(res.Output, "\n") {
			l = strings.TrimSpace(l)
			switch {
			case l == "" || strings.HasPrefix(l, "e2fsck ") || strings.HasPrefix(l, "Pass ") || strings.HasPrefix(l, "Fix? no") || strings.Contains(l, "WARNING: Filesystem still has errors") || strings.Contains(l, " files (") || strings.Contains(l, "blocks\n"):
			case strings.Contains(l, "extent block passes checks, but checksum does not match extent"):
				n++
			case strings.HasPrefix(l, "(logical block "):
			default:
				ok = false
			}
		}
		if ok && n > 0 {
			return "KF-E4-EXTCSUM"
		}
	}
	// findings about the layout Create writes for non-default geometry parameters: the region is
	// "Create step, non-default layout parameters, every e2fsck problem line belongs to a recorded signature"
	if x.opName == "Create" && nonDefaultLayout(o) {
		type sigSet struct {
			kf   string
			pats []string
		}
		sets := []sigSet{
			{"KF-E4-BADGD", []string{"ext2fs_check_desc: Corrupt group descriptor"}},
			{"KF-E4-RESIZEINODE", []string{"Resize inode not valid", "Inode 7, i_size is", "Inode 7 has illegal block", "in inode 7.", "Too many illegal blocks in inode 7", "Inode 7, i_blocks is", "over blocks in inode 7", "e2fsck: aborted"}},
			{"KF-E4-BITMAPCSUM", []string{"block bitmap does not match checksum", "IGNORED."}},
		}
		first := ""
		all := true
		for _, l := range strings.Split(res.Output, "\n") {
			l = strings.TrimSpace(l)
			if l == "" || strings.HasPrefix(l, "e2fsck ") || strings.HasPrefix(l, "Pass ") || strings.Contains(l, "WARNING: Filesystem still has errors") || strings.Contains(l, " files (") ||
				l == "Fix? no" || l == "Clear? no" || l == "Recreate? no" || l == "Relocate? no" {
				continue
			}
			matched := ""
			for _, ss := range sets {
				if !hx.Active(ss.kf) {
					continue
				}
				for _, p := range ss.pats {
					if strings.Contains(l, p) {
						matched = ss.kf
					}
				}
				if matched != "" {
					break
				}
			}
			if matched == "KF-E4-BADGD" {
				return matched // e2fsck falls back to backup descriptors; everything after that line is a consequence
			}
			if matched == "" {
				all = false
				break
			}
			if first == "" && matched != "" && l != "IGNORED." {
				first = matched
			}
		}
		if all && first != "" {
			return first
		}
	}
	return ""
}

func layoutParamCount(o mk.E4Opts) int {
	n := 0
	for _, b := range []bool{o.BlocksPerGroup != 0, o.InodeRatio != 0, o.InodeCount != 0, o.SparseSuper != 0, o.LogFlex != 0, o.FlexBG != nil, o.SectorsPerBlock != 0, o.Bit64 != nil} {
		if b {
			n++
		}
	}
	return n
}

// nonDefaultLayout: a parameter that changes the on-disk layout Create computes was given.
func nonDefaultLayout(o mk.E4Opts) bool {
	return o.BlocksPerGroup != 0 || o.InodeRatio != 0 || o.InodeCount != 0 || o.SparseSuper != 0 || o.LogFlex != 0 || o.FlexBG != nil || o.SectorsPerBlock != 0 || o.Bit64 != nil || o.ResizeIno != nil
}

func (x *e4Run) cleanup() {
	if x.scratch != "" {
		os.RemoveAll(x.scratch)
	}
	for k := range e4MetaStore {
		delete(e4MetaStore, k)
	}
}

func (x *e4Run) run() {
	defer x.cleanup()
	x.m = model.New(model.Exact)
	if !x.create() {
		return
	}
	x.r.Class(fmt.Sprintf("block:%d", x.c.Cfg.blockSize()))
	if x.c.Cfg.Start != 0 {
		x.r.Class("start!=0")
	}
	// does the library create lost+found?
	var ents []iofs.DirEntry
	x.call("ReadDir .", func() error {
		var err error
		ents, err = x.fs.ReadDir(".")
		return err
	})
	for _, e := range ents {
		if e.Name() == "lost+found" {
			_ = x.m.Mkdir("lost+found")
		}
	}
	x.compare("after Create")
	x.structural("after Create")
	if x.aborted {
		return
	}
	for i, op := range x.c.Ops {
		if x.r.Failed() || x.aborted {
			break
		}
		x.step = i
		x.opName = op.K
		x.r.Steps++
		x.r.Class("op:" + op.K)
		x.exec(op)
		if x.r.Failed() {
			return
		}
		x.compare("after " + op.K)
		x.structural("after " + op.K)
	}
	if x.r.Failed() || x.aborted {
		return
	}
	x.step = len(x.c.Ops)
	x.opName = "final reopen"
	x.reopen()
	x.compare("after final reopen")
	if x.doFsck && !x.r.Failed() {
		x.debugfsCompare()
	}
}

// statAll renders every node's observable metadata as a string per path.
func (x *e4Run) statAll() map[string]string {
	out := map[string]string{}
	x.m.Walk(func(p string, n *model.Node) {
		if x.r.Failed() || x.aborted || p == "lost+found" {
			return
		}
		if n.Link {
			var tgt string
			x.call("ReadLink "+p, func() error {
				var err error
				tgt, err = x.fs.ReadLink(p)
				return err
			})
			out[p] = "link->" + tgt
			return
		}
		var fi iofs.FileInfo
		err, ok := x.call("Stat "+p, func() error {
			var err error
			fi, err = x.fs.Stat(p)
			return err
		})
		if !ok || err != nil {
			out[p] = fmt.Sprintf("stat-error:%v", err)
			return
		}
		st, _ := fi.Sys().(*ext4.StatT)
		if st == nil {
			out[p] = "no-sys"
			return
		}
		out[p] = fmt.Sprintf("dir=%v|size=%d|mode=%04o|uid=%d|gid=%d|m=%d.%09d|a=%d.%09d|c=%d.%09d", fi.IsDir(), fi.Size(), modeBits(fi.Mode()), st.UID, st.GID,
			fi.ModTime().Unix(), fi.ModTime().Nanosecond(), st.AccessTime.Unix(), st.AccessTime.Nanosecond(), st.CreateTime.Unix(), st.CreateTime.Nanosecond())
	})
	return out
}

func (x *e4Run) exec(op e4Op) {
	if x.doFrame && (op.K == "chmod" || op.K == "chown" || op.K == "chtimes") && x.m.Lookup(op.P) != nil {
		before := x.statAll()
		x.execOp(op)
		if x.r.Failed() || x.aborted {
			return
		}
		after := x.statAll()
		for p, b := range before {
			if p != op.P && after[p] != b {
				x.fail("frame:"+op.K, "%s(%q) changed another node: %q was %s, now %s", op.K, op.P, p, b, after[p])
				return
			}
		}
		// the target: only the fields the call names may change
		fieldsOf := func(s string) map[string]string {
			m := map[string]string{}
			for _, kv := range strings.Split(s, "|") {
				if i := strings.Index(kv, "="); i > 0 {
					m[kv[:i]] = kv[i+1:]
				}
			}
			return m
		}
		allowed := map[string][]string{"chmod": {"mode"}, "chown": {"uid", "gid"}, "chtimes": {"m", "a", "c"}}[op.K]
		bf, af := fieldsOf(before[op.P]), fieldsOf(after[op.P])
		for k, v := range bf {
			ok := af[k] == v
			for _, a := range allowed {
				if a == k {
					ok = true
				}
			}
			if !ok {
				x.fail("frame-self:"+op.K, "%s(%q) also changed %s: %s -> %s", op.K, op.P, k, v, af[k])
				return
			}
		}
		return
	}
	x.execOp(op)
}

func (x *e4Run) execOp(op e4Op) {
	switch op.K {
	case "mkdir":
		err, ok := x.call("Mkdir", func() error { return x.fs.Mkdir(op.P) })
		if !ok {
			return
		}
		if err != nil {
			x.r.Class("refused:mkdir")
			x.sawRefusal = true
			parts := strings.Split(op.P, "/")
			for i := range parts {
				// only what this call may have created: a directory that existed before keeps its children in the model
				if pre := strings.Join(parts[:i+1], "/"); x.m.Lookup(pre) == nil {
					x.resync(pre)
				}
			}
			return
		}
		_ = x.m.Mkdir(op.P)
		if x.sawRemove {
			x.createAfterRemove = true
		}
	case "create", "write", "append":
		data := op.D.Bytes()
		flag := os.O_RDWR
		var seek int64
		switch op.K {
		case "create":
			flag |= os.O_CREATE
		case "append":
			flag |= os.O_APPEND
		case "write":
			seek = op.Off
		}
		if op.K != "create" && x.m.Lookup(op.P) == nil {
			return
		}
		old := x.snapshot(op.P)
		var n *model.Node
		if op.K == "create" {
			n, _ = x.m.Create(op.P)
		} else {
			n = x.m.Lookup(op.P)
		}
		if n == nil || n.Dir || n.Link {
			return
		}
		switch op.K {
		case "create":
			n.WriteAt(0, data)
		case "write":
			n.WriteAt(op.Off, data)
		case "append":
			n.WriteAt(int64(len(n.Data)), data)
		}
		x.nextSplit = op.N
		err := x.openWrite(op.P, flag, seek, data, true)
		if x.r.Failed() {
			return
		}
		if err != nil {
			x.r.Class("refused:" + op.K)
			x.sawRefusal = true
			x.restore(op.P, old)
			x.resync(op.P)
			return
		}
		if mm := e4MetaStore[n]; mm != nil {
			mm.timesSet = false // a content write may legitimately move the timestamps
		}
		if op.K == "create" && x.sawRemove {
			x.createAfterRemove = true
		}
		if len(n.Data) >= 2*x.c.Cfg.blockSize() {
			x.multiExtent = x.multiExtent || op.K != "create"
		}
	case "interleave":
		np := x.m.Lookup(op.P)
		if np == nil || np.Dir || np.Link || x.m.Lookup(op.Q) != nil {
			return
		}
		nq, _ := x.m.Create(op.Q)
		if nq == nil {
			return
		}
		first := true
		for r := 0; r < op.N; r++ {
			da := mk.Content{Seed: op.D.Seed + uint32(2*r), Len: op.Chunk}.Bytes()
			db := mk.Content{Seed: op.D.Seed + uint32(2*r+1), Len: op.Chunk}.Bytes()
			oldp := len(np.Data)
			np.WriteAt(int64(oldp), da)
			if err := x.openWrite(op.P, os.O_RDWR|os.O_APPEND, 0, da, r == op.N-1); err != nil || x.r.Failed() {
				if x.r.Failed() {
					return
				}
				np.Data = np.Data[:oldp]
				x.sawRefusal = true
				x.r.Class("refused:interleave")
				x.resync(op.P)
				x.resync(op.Q)
				return
			}
			flag := os.O_RDWR | os.O_APPEND
			if first {
				flag = os.O_RDWR | os.O_CREATE
			}
			oldq := len(nq.Data)
			nq.WriteAt(int64(oldq), db)
			if err := x.openWrite(op.Q, flag, 0, db, false); err != nil || x.r.Failed() {
				if x.r.Failed() {
					return
				}
				nq.Data = nq.Data[:oldq]
				x.sawRefusal = true
				x.r.Class("refused:interleave")
				x.resync(op.P)
				x.resync(op.Q)
				return
			}
			first = false
		}
		if op.N >= 2 {
			x.multiExtent = true
		}
		if op.N >= 5 {
			x.r.Class("extents>4")
		}
	case "symlink":
		if x.m.Lookup(op.P) != nil {
			return
		}
		err, ok := x.call("Symlink", func() error { return x.fs.Symlink(op.Q, op.P) })
		if !ok {
			return
		}
		if err != nil {
			x.r.Class("refused:symlink")
			x.sawRefusal = true
			x.resync(op.P)
			return
		}
		_ = x.m.Symlink(op.Q, op.P)
		if len(op.Q) >= 60 {
			x.r.Class("slow-symlink")
			x.specialMeta = true
		}
	case "remove":
		n := x.m.Lookup(op.P)
		if n == nil {
			return
		}
		nonEmpty := n.Dir && len(n.Children) > 0
		err, ok := x.call("Remove", func() error { return x.fs.Remove(op.P) })
		if !ok {
			return
		}
		if nonEmpty {
			if err == nil {
				x.fail("remove-nonempty", "Remove(%q) of a non-empty directory succeeded", op.P)
			}
			return
		}
		if err != nil {
			x.r.Class("refused:remove")
			x.resync(op.P)
			return
		}
		_ = x.m.Remove(op.P)
		x.sawRemove = true
	case "reopen":
		x.reopen()
	case "chmod":
		n := x.m.Lookup(op.P)
		if n == nil || n.Link {
			return
		}
		err, ok := x.call("Chmod", func() error { return x.fs.Chmod(op.P, toFileMode(op.Mode)) })
		if !ok {
			return
		}
		if err != nil {
			x.r.Class("refused:chmod")
			return
		}
		mm := x.meta(n)
		mm.modeSet, mm.mode = true, op.Mode
		n.HasMeta = true
		if op.Mode&0o7000 != 0 {
			x.specialMeta = true
		}
	case "chown":
		n := x.m.Lookup(op.P)
		if n == nil || n.Link {
			return
		}
		err, ok := x.call("Chown", func() error { return x.fs.Chown(op.P, op.UID, op.GID) })
		if !ok {
			return
		}
		if err != nil {
			x.r.Class("refused:chown")
			return
		}
		mm := x.meta(n)
		if op.UID != -1 {
			mm.uidSet, mm.uid = true, uint32(op.UID)
		}
		if op.GID != -1 {
			mm.gidSet, mm.gid = true, uint32(op.GID)
		}
		n.HasMeta = true
		if op.UID > 65535 || op.GID > 65535 {
			x.specialMeta = true
		}
	case "chtimes":
		n := x.m.Lookup(op.P)
		if n == nil || n.Link {
			return
		}
		ct, at, mt := time.Unix(op.T1, int64(op.NS)), time.Unix(op.T2, int64(op.NS)), time.Unix(op.T3, int64(op.NS))
		err, ok := x.call("Chtimes", func() error { return x.fs.Chtimes(op.P, ct, at, mt) })
		if !ok {
			return
		}
		if err != nil {
			x.r.Class("refused:chtimes")
			return
		}
		mm := x.meta(n)
		mm.timesSet, mm.ct, mm.at, mm.mt = true, ct, at, mt
		n.HasMeta = true
		if op.T3 < 0 || op.T3 > 2147483647 || op.NS != 0 {
			x.specialMeta = true
		}
	case "populate":
		dn := x.m.Lookup(op.P)
		if dn == nil || !dn.Dir {
			return
		}
		made := 0
		for j := 0; j < op.N; j++ {
			p := model.Join(op.P, e4PopName(op, j))
			if x.m.Lookup(p) != nil {
				continue
			}
			data := e4PopData(op, j, x.c.Cfg.blockSize())
			pn, _ := x.m.Create(p)
			if pn != nil && len(data) > 0 {
				pn.WriteAt(0, data)
			}
			err := x.openWrite(p, os.O_RDWR|os.O_CREATE, 0, data, false)
			if x.r.Failed() {
				return
			}
			if err != nil {
				x.r.Class("refused:populate")
				x.sawRefusal = true
				x.m.Drop(p)
				x.resync(p)
				break
			}
			made++
		}
		if len(dn.Children)*24 > x.c.Cfg.blockSize() {
			x.bigDir = true
			x.r.Class("dir>1block")
		}
	case "depopulate":
		dn := x.m.Lookup(op.P)
		if dn == nil || !dn.Dir {
			return
		}
		for i, nm := range e4DepopulateNames(dn, op.N) {
			x.exec(e4Op{K: "remove", P: model.Join(op.P, nm)})
			if x.r.Failed() || x.aborted {
				return
			}
			if i%16 == 15 {
				x.compare(fmt.Sprintf("depopulate after %d removes", i+1))
				if x.r.Failed() || x.aborted {
					return
				}
			}
		}
		x.r.Class("depopulate:done")
	case "squeeze":
		// fill the volume, remove one file, grow another by as many bytes (the growth may be refused: an extent
		// tree can need blocks of its own), then remove the fill file; every sub-step is compared and checked
		vn, gn := x.m.Lookup(op.P), x.m.Lookup(op.Q)
		if vn == nil || gn == nil || vn == gn || vn.Dir || gn.Dir || vn.Link || gn.Link {
			return
		}
		fill := fmt.Sprintf("sqz%d.bin", op.D.Seed)
		n := len(vn.Data)
		for i, sub := range []e4Op{
			{K: "fill", P: fill, Chunk: op.Chunk, D: op.D},
			{K: "remove", P: op.P},
			{K: "append", P: op.Q, D: mk.Content{Seed: op.D.Seed*1000 + 999, Len: n}},
			{K: "remove", P: fill},
		} {
			x.exec(sub)
			if x.r.Failed() || x.aborted {
				return
			}
			if i < 3 {
				x.compare(fmt.Sprintf("squeeze after %s", sub.K))
				x.structural(fmt.Sprintf("squeeze after %s", sub.K))
				if x.r.Failed() || x.aborted {
					return
				}
			}
		}
		x.r.Class("squeeze:done")
	case "fill":
		if x.m.Lookup(op.P) != nil {
			return
		}
		dir := ""
		if i := strings.LastIndex(op.P, "/"); i >= 0 {
			dir = op.P[:i]
		}
		if x.m.Lookup(dir) == nil {
			return
		}
		n, _ := x.m.Create(op.P)
		created := false
		for i := 0; i < 40; i++ {
			data := mk.Content{Seed: op.D.Seed*1000 + uint32(i), Len: op.Chunk}.Bytes()
			flag := os.O_RDWR | os.O_APPEND
			if !created {
				flag = os.O_RDWR | os.O_CREATE
			}
			old := len(n.Data)
			n.WriteAt(int64(old), data)
			err := x.openWrite(op.P, flag, 0, data, false)
			if x.r.Failed() {
				return
			}
			if err != nil {
				n.Data = n.Data[:old]
				x.sawRefusal = true
				x.r.Class("refused:fill")
				x.resync(op.P)
				n = x.m.Lookup(op.P)
				break
			}
			created = true
		}
		// top up with ever smaller appends until not even one byte fits: only then is the volume really full
		// (the chunk that was refused may have been thousands of blocks long)
		tries := 0
		for sz := op.Chunk / 8; sz >= 1 && n != nil && !n.Dir && created && !x.r.Failed() && tries < 60; tries++ {
			data := mk.Content{Seed: op.D.Seed*1000 + 900 + uint32(sz%97), Len: sz}.Bytes()
			old := len(n.Data)
			n.WriteAt(int64(old), data)
			if err := x.openWrite(op.P, os.O_RDWR|os.O_APPEND, 0, data, false); err != nil {
				if x.r.Failed() {
					return
				}
				n.Data = n.Data[:old]
				x.resync(op.P)
				if n = x.m.Lookup(op.P); n == nil {
					break
				}
				sz /= 2
				continue
			}
			x.r.Class("fill-topup")
		}
	}
}

func (x *e4Run) snapshot(p string) snap {
	n := x.m.Lookup(p)
	if n == nil {
		return snap{}
	}
	return snap{true, append([]byte(nil), n.Data...)}
}

func (x *e4Run) restore(p string, s snap) {
	if !s.exists {
		x.m.Drop(p)
		return
	}
	if n := x.m.Lookup(p); n != nil {
		n.Data = s.data
	}
}

// debugfsCompare extracts the tree with e2fsprogs' own reader and compares it with the model.
func (x *e4Run) debugfsCompare() {
	if x.scratch == "" {
		return
	}
	img := x.scratch + "/img"
	cfg := x.c.Cfg
	if err := x.d.WriteRangeTo(img, cfg.Start, cfg.Start+cfg.Size); err != nil {
		return
	}
	out := x.scratch + "/dump"
	os.RemoveAll(out)
	if err := os.MkdirAll(out, 0o755); err != nil {
		return
	}
	if infra := indep.DebugfsRdump(img, "/", out); infra != "" {
		x.r.Note("debugfs rdump: %s", firstWords(infra, 8))
		return
	}
	x.m.Walk(func(p string, n *model.Node) {
		if x.r.Failed() || p == "lost+found" || strings.HasPrefix(p, "lost+found/") {
			return
		}
		hp := out + "/" + p
		fi, err := os.Lstat(hp)
		if err != nil {
			x.fail("debugfs-missing", "debugfs does not extract %q: %v", p, err)
			return
		}
		switch {
		case n.Dir:
			if !fi.IsDir() {
				x.fail("debugfs-kind", "debugfs extracts %q as a non-directory", p)
			}
		case n.Link:
			tgt, err := os.Readlink(hp)
			if err != nil || tgt != n.Target {
				x.fail("debugfs-link", "debugfs extracts symlink %q -> %q (err %v), written %q", p, clip(tgt), err, clip(n.Target))
			}
		default:
			data, err := os.ReadFile(hp)
			if err != nil || !bytes.Equal(data, n.Data) {
				x.fail("debugfs-content", "debugfs extracts %q differently from what was written (err %v, %s)", p, err, diffAt(data, n.Data))
			}
		}
	})
}
