package props

// C14 — Reproducible mode yields byte-identical images.

import (
	"encoding/hex"
	"encoding/json"
	"fmt"
	"os"
	"os/exec"
	"testing"
	"time"

	"github.com/diskfs/go-diskfs/partition"
	"pgregory.net/rapid"

	"verifharness/dev"
	"verifharness/hx"
)

type c14Case struct {
	Hist  *histCase  `json:"hist,omitempty"`
	Epoch int64      `json:"epoch"`
	Table *tableSpec `json:"table,omitempty"`
}

func genC14(t *rapid.T) any {
	c := c14Case{}
	if rapid.IntRange(0, 3).Draw(t, "kind") == 0 {
		ts := genTableSpec(t, true)
		if ts.G != nil {
			forceGUIDs(t, ts.G)
		}
		c.Table = &ts
		return c
	}
	h := genFATHistory(t, fatGenOpts{prop: "C14", maxBytes: 5 << 20, maxOps: 14, noCycles: true, noTwoHands: true})
	h.Cfg.Repro = true
	c.Hist = &h
	c.Epoch = rapid.SampledFrom([]int64{0, 1, 315532799, 315532800, 315532801, 946684800, 1700000001, 1700000002, 2147483647, 4354819199, 4354819200}).Draw(t, "epoch")
	return c
}

// c14Run executes the history at the given start with the given garbage around it and returns the hash of the volume's bytes.
func c14Run(h histCase, epoch int64, start int64, garbage bool) (string, error) {
	h.Cfg.Start = start
	h.Cfg.Tail = 4096
	os.Setenv("SOURCE_DATE_EPOCH", fmt.Sprint(epoch))
	defer os.Unsetenv("SOURCE_DATE_EPOCH")
	var r hx.Result
	x := &fatRun{c: h, r: &r}
	if !garbage {
		// plain zero surroundings: create() adds patterns only for start/tail > 0; emulate "no garbage" by a zero start
	}
	x.run()
	if r.Failed() {
		return "", fmt.Errorf("%s", r.Viol)
	}
	if r.Discard || x.d == nil {
		return "", nil
	}
	sum := x.d.SHA256(h.Cfg.Start, h.Cfg.Start+h.Cfg.Size)
	return hex.EncodeToString(sum[:]), nil
}

type c14BatchItem struct {
	Case c14Case `json:"case"`
	Hash string  `json:"hash"`
}

var c14Batch []c14BatchItem

func execC14(ci any) (r hx.Result) {
	c := ci.(c14Case)
	if c.Table != nil {
		return execC14Table(c)
	}
	h := *c.Hist
	r.Class("kind:" + h.Cfg.Kind)
	a, err := c14Run(h, c.Epoch, 0, false)
	if err != nil {
		// the history itself misbehaves (judged by C01/C08), not a reproducibility verdict
		r.Discard = true
		r.Note("history failed: %s", firstWords(err.Error(), 8))
		return
	}
	if a == "" {
		r.Discard = true
		return
	}
	b, err := c14Run(h, c.Epoch, 1<<20+512, true)
	if err != nil || b == "" {
		r.Discard = true
		return
	}
	if a != b {
		r.Fail("fat-not-reproducible:same-process", "%s reproducible volume differs between two runs in the same process (start 0 vs start 1 MiB+512 with garbage around): %s vs %s", h.Cfg.Kind, a[:16], b[:16])
		return
	}
	creates, renrm, grew := 0, 0, false
	for _, op := range h.Ops {
		switch op.K {
		case "create", "mkdir":
			creates++
		case "rename", "remove":
			renrm++
		case "append", "write":
			grew = true
		}
	}
	if creates >= 1 && renrm >= 1 && grew {
		r.Nontrivial = true
	}
	if len(c14Batch) < 400 {
		c14Batch = append(c14Batch, c14BatchItem{Case: c, Hash: a})
	}
	return
}

func execC14Table(c c14Case) (r hx.Result) {
	s := *c.Table
	r.Class("table:" + s.kind())
	size := s.diskSize()
	d1, d2 := dev.New(size), dev.New(size)
	e1, p1, _, _ := writeTable(d1, s)
	e2, p2, _, _ := writeTable(d2, s)
	if p1 || p2 || e1 != nil || e2 != nil {
		r.Discard = true
		return
	}
	r.Nontrivial = true
	if off := d1.FirstDiff(d2); off >= 0 {
		r.Fail("table-not-reproducible", "writing the same %s table twice gives different bytes at offset %d", s.kind(), off)
		return
	}
	// read, then write what was read: nothing may change
	lss := s.lss()
	t, err := partition.Read(d1, lss, lss)
	if err != nil {
		r.Discard = true
		return
	}
	d3 := d1.Clone()
	if err := t.Write(d3, size); err != nil {
		r.Fail("table-rewrite-error", "writing back the %s table that was just read fails: %v", s.kind(), err)
		return
	}
	if off := d1.FirstDiff(d3); off >= 0 {
		r.Fail("table-rewrite-changes", "rewriting the %s table that was read from disk changes byte %d", s.kind(), off)
	}
	return
}

func init() {
	hx.Register(&hx.Spec{ID: "C14", Gen: genC14, Exec: execC14, New: func() any { return new(c14Case) },
		Rule: "case = reproducible FAT12/16/32 volume + operation history + SOURCE_DATE_EPOCH value (incl. 0, pre-1980, odd seconds, 2107+), executed twice in this process (start 0 vs start 1 MiB+512 inside a pattern-filled device) and a third time in a freshly started child process >= 2.1 s later under a different TZ; or a GPT (GUIDs given) / MBR table written twice and re-written after being read; oracle = SHA-256 of the volume range / byte equality of the devices; non-trivial = history with a create, a rename/remove and file growth, or any table case; distinct by hash of the case JSON"})
}

func TestC14(t *testing.T) {
	c14Batch = nil
	hx.RunProp(t, "C14")
	if t.Failed() || len(c14Batch) == 0 {
		return
	}
	// pass B: a fresh process, later, another time zone
	dir := t.TempDir()
	in, out := dir+"/batch.json", dir+"/result.json"
	b, _ := json.Marshal(c14Batch)
	if err := os.WriteFile(in, b, 0o644); err != nil {
		t.Skipf("cannot write batch: %v", err)
	}
	time.Sleep(2100 * time.Millisecond)
	cmd := exec.Command(os.Args[0], "-test.run", "^TestC14Child$")
	cmd.Env = append(os.Environ(), "VERIF_C14_IN="+in, "VERIF_C14_OUT="+out, "TZ=Pacific/Kiritimati", "VERIF_STATS=")
	if outb, err := cmd.CombinedOutput(); err != nil {
		t.Logf("child failed (inconclusive): %v %s", err, string(outb[max(0, len(outb)-400):]))
		return
	}
	var res []string
	rb, err := os.ReadFile(out)
	if err != nil || json.Unmarshal(rb, &res) != nil || len(res) != len(c14Batch) {
		t.Logf("child result unreadable (inconclusive)")
		return
	}
	hx.AddExtra("C14", "second_process_comparisons", len(res))
	for i, it := range c14Batch {
		if res[i] != "" && res[i] != it.Hash {
			r := hx.Result{}
			r.Fail("fat-not-reproducible:other-process", "%s reproducible volume differs when built again in a fresh process 2.1 s later under TZ=Pacific/Kiritimati: %s vs %s", it.Case.Hist.Cfg.Kind, it.Hash[:16], res[i][:16])
			hx.ReportViolation(t, "C14", it.Case, &r)
			return
		}
	}
}

// TestC14Child is pass B of C14; it only runs when the parent hands it a batch.
func TestC14Child(t *testing.T) {
	in, out := os.Getenv("VERIF_C14_IN"), os.Getenv("VERIF_C14_OUT")
	if in == "" {
		t.Skip("no batch")
	}
	b, err := os.ReadFile(in)
	if err != nil {
		t.Fatal(err)
	}
	var batch []c14BatchItem
	if err := json.Unmarshal(b, &batch); err != nil {
		t.Fatal(err)
	}
	res := make([]string, len(batch))
	for i, it := range batch {
		h, err := c14Run(*it.Case.Hist, it.Case.Epoch, 8192, true)
		if err == nil {
			res[i] = h
		}
	}
	ob, _ := json.Marshal(res)
	if err := os.WriteFile(out, ob, 0o644); err != nil {
		t.Fatal(err)
	}
}
