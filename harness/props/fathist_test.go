package props

// FAT operation histories: generator, executor and oracles shared by C01
// (reference model), C08 (independent structure check), C03 (range guard) and
// C14 (reproducibility).

import (
	"bytes"
	"fmt"
	"io"
	iofs "io/fs"
	"os"
	"sort"
	"strings"
	"unicode"

	"github.com/diskfs/go-diskfs/filesystem"
	"pgregory.net/rapid"

	"verifharness/dev"
	"verifharness/hx"
	"verifharness/indep"
	"verifharness/mk"
	"verifharness/model"
)

type fatCfg struct {
	Kind  string `json:"kind"`
	Size  int64  `json:"size"`
	Start int64  `json:"start"`
	Tail  int64  `json:"tail"` // bytes of device after the volume
	BS    int64  `json:"bs"`   // blocksize argument (0/512, 4096 for fat32)
	Label string `json:"label,omitempty"`
	Repro bool   `json:"repro,omitempty"`
}

type fsOp struct {
	K     string     `json:"k"`
	P     string     `json:"p,omitempty"`
	Q     string     `json:"q,omitempty"`
	Off   int64      `json:"off,omitempty"`
	D     mk.Content `json:"d,omitempty"`
	N     int        `json:"n,omitempty"`
	Chunk int        `json:"chunk,omitempty"`
	Long  bool       `json:"long,omitempty"`
}

type histCase struct {
	Cfg fatCfg `json:"cfg"`
	Ops []fsOp `json:"ops"`
}

// ---------- names ----------

const fatShortOK = "!#$%&'()-0123456789@ABCDEFGHIJKLMNOPQRSTUVWXYZ^_`{}"

// fatBasis mirrors the documented 8.3 basis-name rule (drop spaces and dots,
// upper-case, other characters to '_'); used only to keep generated names
// inside the non-aliasing domain (see known finding KF-FAT-ALIAS).
func fatBasis(name string) (stem, ext string, truncated bool) {
	conv := func(s string) string {
		var b strings.Builder
		for _, r := range s {
			switch {
			case r < 128 && strings.ContainsRune(fatShortOK, r):
				b.WriteRune(r)
			case r >= 'a' && r <= 'z':
				b.WriteRune(r - 32)
			case r == ' ' || r == '.':
			default:
				b.WriteRune('_')
			}
		}
		return b.String()
	}
	i := strings.LastIndex(name, ".")
	rawStem, rawExt := name, ""
	if i >= 0 {
		rawStem, rawExt = name[:i], name[i+1:]
	}
	if len(rawExt) > 3 {
		rawExt = rawExt[:3]
	}
	stem, ext = conv(rawStem), conv(rawExt)
	if len(stem) > 8 {
		return stem[:6], ext, true
	}
	return stem, ext, false
}

type nameSet struct {
	fold  map[string]bool // lower-cased full names
	basis map[string]bool // stem|ext of non-truncated names
}

func newNameSet(n *model.Node) *nameSet {
	s := &nameSet{fold: map[string]bool{}, basis: map[string]bool{}}
	for _, c := range n.Children {
		s.add(c.Name)
	}
	return s
}

func (s *nameSet) add(name string) {
	s.fold[strings.ToLower(name)] = true
	st, ex, tr := fatBasis(name)
	if !tr {
		s.basis[st+"|"+ex] = true
	}
}

func (s *nameSet) ok(name string) bool {
	if s.fold[strings.ToLower(name)] {
		return false
	}
	st, ex, tr := fatBasis(name)
	if st == "" {
		return false
	}
	if !tr && s.basis[st+"|"+ex] {
		return false
	}
	return true
}

var fatNameClasses = []string{"83upper", "83lower", "83mixed", "longstem", "longext", "subst", "spaces", "dots", "bmp", "stem6", "len255", "noext", "upperlongext", "upperlongstem"}

// genFATName draws a legal name of a labelled class that does not alias any
// existing entry of the directory.
func genFATName(t *rapid.T, s *nameSet, counter int) (string, string) {
	class := rapid.SampledFrom(fatNameClasses).Draw(t, "nameClass")
	base := rapid.StringMatching(`[a-z]{1,5}`).Draw(t, "nameBase")
	ext := rapid.SampledFrom([]string{"txt", "bin", "d", "cfg"}).Draw(t, "nameExt")
	mkName := func(k int) string {
		suffix := ""
		if k > 0 {
			suffix = fmt.Sprintf("%d", k)
		}
		switch class {
		case "83upper":
			return strings.ToUpper(base+suffix) + "." + strings.ToUpper(ext)
		case "83lower":
			return base + suffix + "." + ext
		case "83mixed":
			return strings.ToUpper(base[:1]) + base[1:] + suffix + "." + strings.ToUpper(ext[:1]) + ext[1:]
		case "longstem":
			return base + "longfilename" + suffix + "." + ext
		case "longext":
			return base + suffix + ".html"
		case "upperlongext": // a valid upper-case 8.3 stem, only the extension is too long: still needs a long name
			return strings.ToUpper(base+suffix) + rapid.SampledFrom([]string{".HTML", ".JSONL", ".TARGZ"}).Draw(t, "upperExt")
		case "upperlongstem":
			return strings.ToUpper(base+"LONGSTEM"+suffix) + "." + strings.ToUpper(ext)
		case "subst":
			return base + "+" + suffix + "," + base + "." + ext
		case "spaces":
			return base + " " + suffix + " file." + ext
		case "dots":
			return base + "." + suffix + ".v2." + ext
		case "bmp":
			return base + suffix + "-été-файл." + ext
		case "stem6":
			return "collid" + base + suffix + "." + ext
		case "len255":
			n := base + suffix + "-"
			for len(n) < 251 {
				n += "x"
			}
			return n[:251] + "." + ext
		default: // noext
			return strings.ToUpper(base + suffix)
		}
	}
	for k := 0; k < 1000; k++ {
		kk := k
		if k > 0 {
			kk = counter*7 + k
		}
		n := mkName(kk)
		if len([]rune(n)) <= 255 && s.ok(n) {
			return n, class
		}
	}
	return fmt.Sprintf("U%d.X", counter), "fallback"
}

func caseVariant(p string) string {
	r := []rune(p)
	for i, c := range r {
		if c < 128 && unicode.IsLetter(c) {
			if unicode.IsUpper(c) {
				r[i] = unicode.ToLower(c)
			} else {
				r[i] = unicode.ToUpper(c)
			}
		}
	}
	return string(r)
}

// ---------- configuration ----------

func genFATCfg(t *rapid.T, maxBytes int64) fatCfg {
	c := fatCfg{}
	c.Kind = rapid.SampledFrom([]string{"fat12", "fat16", "fat32"}).Draw(t, "kind")
	var sizes []int64
	switch c.Kind {
	case "fat12":
		sizes = []int64{64 << 10, 360 << 10, 1474560, 2<<20 + 512, 4 << 20, 7<<20 + 1536, 16 << 20, 33 << 20}
	case "fat16":
		sizes = []int64{4400 << 10, 5 << 20, 8<<20 + 512, 16<<20 + 1536, 33 << 20}
	case "fat32":
		sizes = []int64{1<<20 + 1536, 2 << 20, 3<<20 + 512, 5 << 20, 9<<20 + 3584, 33 << 20}
	}
	var ok []int64
	for _, s := range sizes {
		if s <= maxBytes {
			ok = append(ok, s)
		}
	}
	c.Size = rapid.SampledFrom(ok).Draw(t, "size")
	if rapid.IntRange(0, 5).Draw(t, "wideGeometry") == 0 {
		// any sector count in the type's whole legal range (the sparse device makes the size free; histories on
		// such volumes are kept to a few operations): geometry rules have boundaries at sizes no list anticipates
		lo, hi := int64(64<<10), int64(127<<20)
		switch c.Kind {
		case "fat16":
			lo, hi = 4400<<10, 1<<30
		case "fat32":
			lo, hi = 1<<20+1536, 300<<20
		}
		c.Size = rapid.Int64Range(lo/512, hi/512).Draw(t, "wideSectors") * 512
	}
	// a few sectors more, so that the data area leaves every possible remainder of a cluster unused at its end
	c.Size += int64(rapid.IntRange(0, 15).Draw(t, "oddSectors")) * 512
	c.Start = rapid.SampledFrom([]int64{0, 0, 512, 1 << 20, 1<<32 + 4096}).Draw(t, "start")
	c.Tail = rapid.SampledFrom([]int64{0, 512, 1 << 20}).Draw(t, "tail")
	c.BS = 512
	if c.Kind == "fat32" && c.Size >= 5<<20 && rapid.IntRange(0, 3).Draw(t, "bs4k") == 0 {
		c.BS = 4096
		c.Size = c.Size / 4096 * 4096
		if c.Start%4096 != 0 {
			c.Start = 1 << 20
		}
	}
	if rapid.Bool().Draw(t, "label") {
		c.Label = rapid.SampledFrom([]string{"DATA", "MY LABEL", "go-diskfs", "ABCDEFGHIJK"}).Draw(t, "labelV")
	}
	return c
}

func fatClusterBytes(c fatCfg) int {
	switch c.Kind {
	case "fat12":
		switch {
		case c.Size <= 2<<20:
			return 512
		case c.Size <= 4<<20:
			return 1024
		case c.Size < 8<<20:
			return 2048
		case c.Size <= 16<<20:
			return 4096
		case c.Size <= 32<<20:
			return 8192
		case c.Size <= 64<<20:
			return 16384
		}
		return 32768
	case "fat16":
		if c.Size <= 32<<20 {
			return 1024
		}
		return 2048
	}
	if c.BS == 4096 {
		return 4096
	}
	if c.Size <= 260<<20 {
		return 512
	}
	return 4096
}

// ---------- history generator ----------

type fatGenOpts struct {
	prop       string
	maxBytes   int64
	maxOps     int
	attrs      bool // include Chtimes / attribute ops (C19)
	noTwoHands bool
	noCycles   bool
}

func genFATHistory(t *rapid.T, o fatGenOpts) histCase {
	c := histCase{Cfg: genFATCfg(t, o.maxBytes)}
	cb := fatClusterBytes(c.Cfg)
	m := model.New(model.FoldFAT)
	counter := 0
	sizes := []int{0, 1, 511, 512, 513, cb - 1, cb, cb + 1, 2 * cb, 2*cb + 1, 3*cb + 17, 7 * cb}
	pickDir := func() string { return rapid.SampledFrom(m.Dirs()).Draw(t, "dir") }
	content := func(label string) mk.Content {
		counter++
		n := 0
		if rapid.IntRange(0, 3).Draw(t, label+"Mode") == 0 {
			n = rapid.IntRange(0, 9*cb).Draw(t, label)
		} else {
			n = rapid.SampledFrom(sizes).Draw(t, label+"B")
		}
		return mk.Content{Seed: uint32(counter), Len: n, Style: rapid.SampledFrom([]int{0, 0, 2}).Draw(t, label+"Style")}
	}
	// split: the data of a write goes out in two Write calls on one handle (0 = one call)
	split := func(ct mk.Content) int {
		if ct.Len < 2 || rapid.IntRange(0, 2).Draw(t, "splitWrite") != 0 {
			return 0
		}
		return rapid.SampledFrom([]int{1, ct.Len / 2, ct.Len - 1}).Draw(t, "splitAt")
	}
	spell := func(p string) string {
		if rapid.IntRange(0, 5).Draw(t, "spell") == 0 {
			return caseVariant(p)
		}
		return p
	}
	nops := rapid.IntRange(1, o.maxOps).Draw(t, "nops")
	if c.Cfg.Size > o.maxBytes+16*512 {
		// a volume from the wide-geometry class: a few plain operations, no fill or populate cycles
		o.noCycles = true
		if nops > 4 {
			nops = 4
		}
	}
	if c.Cfg.Kind == "fat32" && c.Cfg.BS == 512 && !o.noCycles && rapid.IntRange(0, 11).Draw(t, "highClusters") == 0 {
		// a FAT32 volume with more than 65536 clusters whose first 33 MiB are taken by one file of zeros: everything
		// created afterwards starts at a cluster number that needs the high word of the directory entry
		c.Cfg.Size = 40<<20 + int64(rapid.IntRange(0, 15).Draw(t, "highOdd"))*512
		big := mk.Content{Seed: 1, Len: 33<<20 + 700, Style: 1}
		if n, _ := m.Create("BIG.BIN"); n != nil {
			n.WriteAt(0, big.Bytes())
		}
		c.Ops = append(c.Ops, fsOp{K: "create", P: "BIG.BIN", D: big})
		if nops > 5 {
			nops = 5
		}
		o.noCycles = true // no fill / populate cycles on top of it: each step already re-reads 33 MiB
	}
	for i := 0; i < nops; i++ {
		files := m.Files()
		all := m.All()
		kinds := []string{"create", "create", "mkdir"}
		if len(files) > 0 {
			kinds = append(kinds, "write", "write", "append", "append", "trunc", "rename", "remove", "remove")
		}
		if len(all) > 0 {
			kinds = append(kinds, "removeany", "reopen")
		}
		if !o.noCycles {
			kinds = append(kinds, "fillcycle", "popcycle")
			if len(files) >= 2 {
				kinds = append(kinds, "squeeze")
			}
		}
		if !o.noTwoHands {
			if hx.Active("KF-FAT-STALEDIR") {
				hx.Excluded(o.prop, "KF-FAT-STALEDIR")
			} else {
				kinds = append(kinds, "interleave2")
			}
		}
		if o.attrs && len(all) > 0 {
			for k := 0; k < 4; k++ {
				kinds = append(kinds, "chtimes", "attr")
			}
		}
		k := rapid.SampledFrom(kinds).Draw(t, "op")
		switch k {
		case "mkdir":
			d := pickDir()
			name, _ := genFATName(t, newNameSet(m.Lookup(d)), counter)
			counter++
			p := model.Join(d, name)
			if rapid.IntRange(0, 4).Draw(t, "nested") == 0 {
				p = model.Join(p, "SUB")
			}
			_ = m.Mkdir(p)
			c.Ops = append(c.Ops, fsOp{K: "mkdir", P: p})
		case "create":
			d := pickDir()
			name, _ := genFATName(t, newNameSet(m.Lookup(d)), counter)
			p := model.Join(d, name)
			n, _ := m.Create(p)
			ct := content("createLen")
			if n != nil {
				n.WriteAt(0, ct.Bytes())
			}
			c.Ops = append(c.Ops, fsOp{K: "create", P: p, D: ct, N: split(ct)})
		case "write":
			p := rapid.SampledFrom(files).Draw(t, "wfile")
			n := m.Lookup(p)
			sz := int64(len(n.Data))
			var off int64
			switch rapid.IntRange(0, 4).Draw(t, "offMode") {
			case 0:
				off = 0
			case 1:
				off = sz
			case 2:
				off = sz + int64(rapid.SampledFrom([]int{1, 511, cb - 1, cb, cb + 1, 2*cb + 3}).Draw(t, "past"))
			default:
				if sz > 0 {
					off = int64(rapid.IntRange(0, int(sz)).Draw(t, "inside"))
				}
			}
			ct := content("writeLen")
			n.WriteAt(off, ct.Bytes())
			c.Ops = append(c.Ops, fsOp{K: "write", P: spell(p), Off: off, D: ct, N: split(ct)})
		case "append":
			p := rapid.SampledFrom(files).Draw(t, "afile")
			ct := content("appendLen")
			n := m.Lookup(p)
			n.WriteAt(int64(len(n.Data)), ct.Bytes())
			c.Ops = append(c.Ops, fsOp{K: "append", P: spell(p), D: ct, N: split(ct)})
		case "trunc":
			p := rapid.SampledFrom(files).Draw(t, "tfile")
			ct := content("truncLen")
			n := m.Lookup(p)
			n.Data = nil
			n.WriteAt(0, ct.Bytes())
			c.Ops = append(c.Ops, fsOp{K: "trunc", P: spell(p), D: ct, Long: rapid.IntRange(0, 2).Draw(t, "truncAppend") == 0})
		case "rename":
			p := rapid.SampledFrom(files).Draw(t, "rfile")
			dir := ""
			if i := strings.LastIndex(p, "/"); i >= 0 {
				dir = p[:i]
			}
			dn := m.Lookup(dir)
			var q string
			switch rapid.IntRange(0, 3).Draw(t, "renameMode") {
			case 0: // onto an existing file of the same directory
				var sib []string
				for _, ch := range dn.Children {
					if !ch.Dir && model.Join(dir, ch.Name) != p {
						sib = append(sib, ch.Name)
					}
				}
				sort.Strings(sib)
				if len(sib) > 0 {
					onto := rapid.SampledFrom(sib).Draw(t, "renameOnto")
					// the destination may be spelled differently from the stored name: FAT names are
					// case-insensitive, so this still replaces the existing file (and must release its clusters)
					if rapid.IntRange(0, 2).Draw(t, "renameOntoSpell") == 0 {
						onto = caseVariant(onto)
					}
					q = model.Join(dir, onto)
				}
			case 1: // case-only rename
				base := p[strings.LastIndex(p, "/")+1:]
				if cv := caseVariant(base); cv != base {
					q = model.Join(dir, cv)
				}
			}
			if q == "" {
				ns := newNameSet(dn)
				name, _ := genFATName(t, ns, counter)
				counter++
				q = model.Join(dir, name)
			}
			_ = m.Rename(p, q)
			c.Ops = append(c.Ops, fsOp{K: "rename", P: spell(p), Q: q})
		case "remove":
			p := rapid.SampledFrom(files).Draw(t, "rmfile")
			_ = m.Remove(p)
			c.Ops = append(c.Ops, fsOp{K: "remove", P: spell(p)})
		case "removeany":
			p := rapid.SampledFrom(all).Draw(t, "rmany")
			_ = m.Remove(p) // non-empty directory: refused, model unchanged
			c.Ops = append(c.Ops, fsOp{K: "remove", P: p})
		case "reopen":
			c.Ops = append(c.Ops, fsOp{K: "reopen"})
		case "fillcycle":
			d := pickDir()
			counter++
			p := model.Join(d, fmt.Sprintf("FILL%d.BIN", counter))
			chunk := rapid.SampledFrom([]int{cb, 3*cb + 1, 16 * cb, 64 << 10, 256 << 10}).Draw(t, "fillChunk")
			if min := int(c.Cfg.Size / 40); chunk < min {
				chunk = min + chunk%cb + 1 // keeps the number of appends per round small; still not cluster-aligned
			}
			c.Ops = append(c.Ops, fsOp{K: "fillcycle", P: p, Chunk: chunk, N: rapid.IntRange(2, 4).Draw(t, "rounds"), D: mk.Content{Seed: uint32(counter)}})
		case "squeeze":
			// fill the volume, remove one existing file, grow another by as many bytes: must fit
			vi := rapid.IntRange(0, len(files)-1).Draw(t, "sqzVictim")
			gi := rapid.IntRange(0, len(files)-2).Draw(t, "sqzGrow")
			if gi >= vi {
				gi++
			}
			counter++
			if vn, gn := m.Lookup(files[vi]), m.Lookup(files[gi]); vn != nil && gn != nil {
				n := len(vn.Data)
				_ = m.Remove(files[vi])
				gn.WriteAt(int64(len(gn.Data)), make([]byte, n))
			}
			chunk := rapid.SampledFrom([]int{cb, 3*cb + 1, 16 * cb, 64 << 10}).Draw(t, "sqzChunk")
			if min := int(c.Cfg.Size / 40); chunk < min {
				chunk = min + chunk%cb + 1
			}
			c.Ops = append(c.Ops, fsOp{K: "squeeze", P: files[vi], Q: files[gi], Chunk: chunk, D: mk.Content{Seed: uint32(counter)}})
		case "popcycle":
			d := pickDir()
			counter++
			c.Ops = append(c.Ops, fsOp{K: "popcycle", P: d, N: rapid.IntRange(2, 3).Draw(t, "prounds"), Chunk: rapid.SampledFrom([]int{20, 60, 130, 260}).Draw(t, "popMax"),
				Long: rapid.Bool().Draw(t, "popLong"), D: mk.Content{Seed: uint32(counter)}})
		case "interleave2":
			d := pickDir()
			ns := newNameSet(m.Lookup(d))
			a, _ := genFATName(t, ns, counter)
			ns.add(a)
			counter++
			b, _ := genFATName(t, ns, counter)
			counter++
			chunk := rapid.SampledFrom([]int{1, cb - 1, cb, cb + 1}).Draw(t, "ilChunk")
			rounds := rapid.IntRange(1, 6).Draw(t, "ilRounds")
			pa, pb := model.Join(d, a), model.Join(d, b)
			na, _ := m.Create(pa)
			nb, _ := m.Create(pb)
			for r := 0; r < rounds; r++ {
				na.WriteAt(int64(len(na.Data)), mk.Content{Seed: uint32(counter*100 + 2*r), Len: chunk}.Bytes())
				nb.WriteAt(int64(len(nb.Data)), mk.Content{Seed: uint32(counter*100 + 2*r + 1), Len: chunk}.Bytes())
			}
			c.Ops = append(c.Ops, fsOp{K: "interleave2", P: pa, Q: pb, Chunk: chunk, N: rounds, D: mk.Content{Seed: uint32(counter * 100)}})
		case "chtimes":
			p := rapid.SampledFrom(all).Draw(t, "ctfile")
			c.Ops = append(c.Ops, fsOp{K: "chtimes", P: p, Off: genFATTime(t, "mt"), N: int(genFATTime(t, "at") / 86400), Chunk: int(genFATTime(t, "ct") % (1 << 31))})
		case "attr":
			if len(files) == 0 {
				continue
			}
			p := rapid.SampledFrom(files).Draw(t, "atfile")
			c.Ops = append(c.Ops, fsOp{K: "attr", P: p, Q: rapid.SampledFrom([]string{"hidden", "system", "readonly", "archive"}).Draw(t, "which"), N: rapid.IntRange(0, 1).Draw(t, "on")})
		}
	}
	return c
}

// genFATTime draws unix seconds inside FAT's representable range 1980..2107.
func genFATTime(t *rapid.T, label string) int64 {
	switch rapid.IntRange(0, 3).Draw(t, label+"Mode") {
	case 0:
		return rapid.SampledFrom([]int64{315532800, 315532802, 315532801, 2147483647, 2147483648, 4354819198, 4354819199 - 86400, 946684799, 951782400 /* 2000-02-29 */}).Draw(t, label+"B")
	}
	return rapid.Int64Range(315532800, 4354819198).Draw(t, label)
}

// ---------- executor ----------

type fatRun struct {
	guardOnly       bool // C03: only containment is judged; a panic/hang aborts the history with a note
	aborted         bool
	c               histCase
	r               *hx.Result
	d               *dev.Device
	fs              filesystem.FileSystem
	m               *model.Tree
	doModel         bool
	doFatck         bool
	doGuard         bool
	attrs           bool
	sawRelease      bool // an op that must release clusters happened
	sawENOSPC       bool
	sawReopen       bool
	mutAfterRelease bool
	grew            bool
	step            int
	opName          string
	nextSplit       int // split point of the next openWrite's data (two Write calls on one handle)
}

func fsPath(p string) string { return "/" + p }

func (x *fatRun) devSize() int64 { return x.c.Cfg.Start + x.c.Cfg.Size + x.c.Cfg.Tail }

func (x *fatRun) fail(sig, f string, a ...any) {
	if !x.r.Failed() {
		x.r.Fail(sig, "step %d (%s): %s", x.step, x.opName, fmt.Sprintf(f, a...))
	}
}

// call runs library code with panic capture and watchdog.
func (x *fatRun) call(what string, f func() error) (err error, ok bool) {
	fin := hx.WithTimeout(watchdog(), func() {
		if p, pv, st := hx.Safe(func() { err = f() }); p {
			if x.guardOnly {
				x.r.Note("history aborted: %s panicked (%s)", firstWords(what, 1), panicKind(pv))
				x.aborted = true
				return
			}
			x.fail("panic:"+panicKind(pv), "%s panicked: %v [%s]", what, pv, st)
		}
	})
	if !fin {
		if x.guardOnly {
			x.r.Note("history aborted: %s hung", firstWords(what, 1))
			x.aborted = true
			return nil, false
		}
		x.fail("hang", "%s did not return within %v", what, watchdog())
		return nil, false
	}
	return err, !x.r.Failed() && !x.aborted
}

func (x *fatRun) openWrite(p string, flag int, seek int64, data []byte, readBack bool) error {
	var outErr error
	_, _ = x.call("OpenFile/Write "+p, func() error {
		f, err := x.fs.OpenFile(fsPath(p), flag)
		if err != nil {
			outErr = fmt.Errorf("open: %w", err)
			return nil
		}
		defer f.Close()
		if seek > 0 {
			if _, err := f.Seek(seek, io.SeekStart); err != nil {
				outErr = fmt.Errorf("seek: %w", err)
				return nil
			}
		}
		// the bytes may go out in two Write calls on the same handle with no Seek in between: the second one
		// has to continue where the first one ended (also when the first one started beyond the end of the file)
		pieces := [][]byte{data}
		if sp := x.nextSplit; sp > 0 && sp < len(data) {
			pieces = [][]byte{data[:sp], data[sp:]}
			x.r.Class("write-in-two-calls")
		}
		x.nextSplit = 0
		for _, piece := range pieces {
			if len(piece) == 0 {
				continue
			}
			n, err := f.Write(piece)
			if err != nil {
				outErr = fmt.Errorf("write: %w", err)
				return nil
			}
			if n != len(piece) {
				outErr = fmt.Errorf("short write %d of %d", n, len(piece))
				return nil
			}
		}
		if x.doModel && flag&os.O_APPEND == 0 && len(data) > 0 {
			// the handle's cursor stands behind the last byte written (io.Seeker: Seek(0, SeekCurrent) reports it)
			if pos, err := f.Seek(0, io.SeekCurrent); err == nil && pos != seek+int64(len(data)) {
				x.fail("cursor-after-write", "%s: after Seek(%d) and writing %d bytes the cursor stands at %d, not at %d", p, seek, len(data), pos, seek+int64(len(data)))
				return nil
			}
		}
		if readBack && x.doModel {
			// same handle: Seek(0) and read everything
			if _, err := f.Seek(0, io.SeekStart); err != nil {
				x.fail("samehandle-seek", "Seek(0) on the writing handle of %s: %v", p, err)
				return nil
			}
			got, err := io.ReadAll(f)
			if err != nil {
				x.fail("samehandle-read", "reading %s back through the handle that wrote it: %v", p, err)
				return nil
			}
			if n := x.m.Lookup(p); n != nil && !bytes.Equal(got, n.Data) {
				x.fail("samehandle-content", "%s read back through the writing handle differs from the model (%s)", p, diffAt(got, n.Data))
			}
		}
		return nil
	})
	return outErr
}

func diffAt(got, want []byte) string {
	k := 0
	for k < len(got) && k < len(want) && got[k] == want[k] {
		k++
	}
	return fmt.Sprintf("got %d bytes, want %d, first difference at offset %d", len(got), len(want), k)
}

// resync sets the model's view of one path to whatever the filesystem reports.
func (x *fatRun) resync(p string) {
	x.m.Drop(p)
	dir, base := "", p
	if i := strings.LastIndex(p, "/"); i >= 0 {
		dir, base = p[:i], p[i+1:]
	}
	if x.m.Lookup(dir) == nil {
		return
	}
	rd := dir
	if rd == "" {
		rd = "."
	}
	var ents []iofs.DirEntry
	if _, ok := x.call("ReadDir "+rd, func() error {
		var err error
		ents, err = x.fs.ReadDir(rd)
		return err
	}); !ok {
		return
	}
	for _, e := range ents {
		if strings.EqualFold(e.Name(), base) {
			if e.IsDir() {
				_ = x.m.Mkdir(model.Join(dir, e.Name()))
				return
			}
			n, _ := x.m.Create(model.Join(dir, e.Name()))
			var data []byte
			x.call("ReadFile "+p, func() error {
				var err error
				data, err = x.fs.ReadFile(model.Join(dir, e.Name()))
				return err
			})
			if n != nil {
				n.Data = data
			}
			return
		}
	}
}

// compare checks every listing and every file's content against the model.
func (x *fatRun) compare(label string) {
	if !x.doModel || x.r.Failed() {
		return
	}
	for _, d := range x.m.Dirs() {
		rd := d
		if rd == "" {
			rd = "."
		}
		var ents []iofs.DirEntry
		err, ok := x.call("ReadDir "+rd, func() error {
			var err error
			ents, err = x.fs.ReadDir(rd)
			return err
		})
		if !ok {
			return
		}
		if err != nil {
			x.fail("listing-error", "%s: ReadDir(%q) fails: %v", label, rd, err)
			return
		}
		var got []string
		isDir := map[string]bool{}
		for _, e := range ents {
			got = append(got, e.Name())
			isDir[e.Name()] = e.IsDir()
		}
		sort.Strings(got)
		want := x.m.Lookup(d).ChildNames()
		if strings.Join(got, "\x00") != strings.Join(want, "\x00") {
			x.fail("listing", "%s: directory %q lists %q, model has %q", label, rd, got, want)
			return
		}
		for _, ch := range x.m.Lookup(d).Children {
			if isDir[ch.Name] != ch.Dir {
				x.fail("kind", "%s: %q in %q reported as dir=%v, model dir=%v", label, ch.Name, rd, isDir[ch.Name], ch.Dir)
				return
			}
		}
	}
	for _, p := range x.m.Files() {
		var data []byte
		err, ok := x.call("ReadFile "+p, func() error {
			var err error
			data, err = x.fs.ReadFile(p)
			return err
		})
		if !ok {
			return
		}
		if err != nil {
			x.fail("content-error", "%s: ReadFile(%q) fails: %v", label, p, err)
			return
		}
		if want := x.m.Lookup(p).Data; !bytes.Equal(data, want) {
			x.fail("content", "%s: %q differs from the model (%s)", label, p, diffAt(data, want))
			return
		}
	}
}

func (x *fatRun) structural(label string) {
	if x.r.Failed() {
		return
	}
	cfg := x.c.Cfg
	if x.doGuard {
		if esc := x.d.Escapes(); len(esc) > 0 {
			x.fail("escape", "%s: WriteAt(off=%d,len=%d) lies outside the volume's range [%d,%d)", label, esc[0].Off, esc[0].Len, cfg.Start, cfg.Start+cfg.Size)
			return
		}
		if off := x.d.OutsideDiff([]dev.Interval{{Lo: cfg.Start, Hi: cfg.Start + cfg.Size}}); off >= 0 {
			x.fail("guard-bytes", "%s: device byte %d outside the volume's range [%d,%d) changed", label, off, cfg.Start, cfg.Start+cfg.Size)
			return
		}
	}
	if x.doFatck {
		rep := indep.CheckFAT(x.d, cfg.Start, cfg.Size, cfg.Kind)
		for _, d := range rep.Diag {
			x.r.Note("fatck diagnostic: %s", firstWords(d, 6))
		}
		if len(rep.Violations) > 0 {
			x.fail("fatck:"+fatckSig(rep.Violations[0]), "%s: independent FAT check: %s", label, strings.Join(rep.Violations, "; "))
		}
	}
}

func fatckSig(v string) string {
	for _, k := range []string{"lost clusters", "FAT copies differ", "belongs to both", "outside the data area", "loops", "needs", "geometry", "backup boot", "FSInfo", "free cluster", "signature"} {
		if strings.Contains(v, k) {
			return strings.ReplaceAll(k, " ", "-")
		}
	}
	return "other"
}

func (x *fatRun) create() bool {
	cfg := x.c.Cfg
	x.d = dev.New(x.devSize())
	if cfg.Start > 0 {
		x.d.AddPattern(0, cfg.Start)
	}
	if cfg.Tail > 0 {
		x.d.AddPattern(cfg.Start+cfg.Size, x.devSize())
	}
	if x.doGuard {
		x.d.Guard([]dev.Interval{{Lo: cfg.Start, Hi: cfg.Start + cfg.Size}})
	}
	x.opName = "Create"
	err, ok := x.call("Create", func() error {
		var err error
		x.fs, err = mk.CreateFAT(cfg.Kind, x.d, cfg.Size, cfg.Start, cfg.BS, cfg.Label, cfg.Repro)
		return err
	})
	if !ok {
		return false
	}
	if err != nil {
		x.r.Discard = true
		x.r.Note("Create refused: %s", firstWords(err.Error(), 8))
		return false
	}
	return true
}

func (x *fatRun) reopen() {
	cfg := x.c.Cfg
	err, ok := x.call("Read", func() error {
		fs, err := mk.ReadFAT(cfg.Kind, x.d, cfg.Size, cfg.Start, cfg.BS)
		if err == nil {
			x.fs = fs
		}
		return err
	})
	if ok && err != nil {
		x.fail("reopen", "re-opening the volume from its bytes fails: %v", err)
	}
	x.sawReopen = true
}

// run executes the history. It returns the device for callers that hash it.
func (x *fatRun) run() {
	for k := range fatMetaStore {
		delete(fatMetaStore, k)
	}
	x.m = model.New(model.FoldFAT)
	if !x.create() {
		return
	}
	x.r.Class("kind:" + x.c.Cfg.Kind)
	if x.c.Cfg.Start != 0 {
		x.r.Class("start!=0")
	}
	if x.c.Cfg.Size%int64(fatClusterBytes(x.c.Cfg)) != 0 {
		x.r.Class("size%cluster!=0")
	}
	x.compare("after Create")
	x.structural("after Create")
	for i, op := range x.c.Ops {
		if x.r.Failed() || x.aborted {
			break
		}
		x.step = i
		x.opName = op.K
		x.r.Steps++
		x.r.Class("op:" + op.K)
		x.exec(op)
		if x.r.Failed() {
			return
		}
		x.compare("after " + op.K)
		x.structural("after " + op.K)
	}
	if x.r.Failed() {
		return
	}
	// final: re-open from bytes and compare once more
	x.step = len(x.c.Ops)
	x.opName = "final reopen"
	x.reopen()
	x.compare("after final reopen")
}

func (x *fatRun) noteMut() {
	if x.sawRelease {
		x.mutAfterRelease = true
	}
}

func (x *fatRun) exec(op fsOp) {
	switch op.K {
	case "mkdir":
		err, ok := x.call("Mkdir", func() error { return x.fs.Mkdir(fsPath(op.P)) })
		if !ok {
			return
		}
		if err != nil {
			x.r.Class("refused:mkdir")
			x.sawENOSPC = true
			// mkdir -p may have created a prefix
			parts := strings.Split(op.P, "/")
			for i := range parts {
				// only what this call may have created: a directory that existed before keeps its children in the model
				if pre := strings.Join(parts[:i+1], "/"); x.m.Lookup(pre) == nil {
					x.resync(pre)
				}
			}
			return
		}
		_ = x.m.Mkdir(op.P)
		x.noteMut()
	case "create", "write", "append", "trunc":
		data := op.D.Bytes()
		flag := os.O_RDWR
		var seek int64
		mp := op.P
		if n := x.m.Lookup(op.P); n != nil {
			// canonical spelling for the model
			mp = x.canon(op.P)
		}
		switch op.K {
		case "create":
			flag |= os.O_CREATE
		case "append":
			flag |= os.O_APPEND
		case "trunc":
			flag |= os.O_TRUNC
			if op.Long {
				flag |= os.O_APPEND // both flags together: the file is emptied first, the data then starts at offset 0
			}
			x.sawRelease = true
		case "write":
			seek = op.Off
		}
		if op.K != "create" && x.m.Lookup(op.P) == nil {
			return // the file never came to exist (an earlier refused op); skip
		}
		// apply to the model first so the same-handle read-back can be compared
		old := x.snapshot(mp)
		var n *model.Node
		if op.K == "create" {
			n, _ = x.m.Create(mp)
		} else {
			n = x.m.Lookup(mp)
		}
		if n == nil || n.Dir {
			return
		}
		switch op.K {
		case "create":
			n.WriteAt(0, data)
		case "write":
			n.WriteAt(op.Off, data)
		case "append":
			n.WriteAt(int64(len(n.Data)), data)
		case "trunc":
			n.Data = nil
			n.WriteAt(0, data)
		}
		x.nextSplit = op.N
		err := x.openWrite(op.P, flag, seek, data, true)
		if x.r.Failed() {
			return
		}
		if err != nil {
			x.r.Class("refused:" + op.K)
			x.sawENOSPC = true
			x.restore(mp, old)
			x.resync(mp)
			return
		}
		x.noteMut()
		if len(n.Data) > 2*fatClusterBytes(x.c.Cfg) {
			x.grew = true
		}
	case "rename":
		if x.m.Lookup(op.P) == nil {
			return
		}
		src := x.canon(op.P)
		if t := x.m.Lookup(op.Q); t != nil && t != x.m.Lookup(src) {
			x.sawRelease = true
		}
		err, ok := x.call("Rename", func() error { return x.fs.Rename(fsPath(op.P), fsPath(op.Q)) })
		if !ok {
			return
		}
		if err != nil {
			x.r.Class("refused:rename")
			x.resync(src)
			x.resync(op.Q)
			return
		}
		if n := x.m.Lookup(src); n != nil {
			if mm := fatMetaStore[n]; mm != nil {
				mm.timesSet = false // Rename stamps the entry with the current time
			}
		}
		_ = x.m.Rename(src, op.Q)
		x.noteMut()
	case "remove":
		n := x.m.Lookup(op.P)
		if n == nil {
			return
		}
		src := x.canon(op.P)
		nonEmpty := n.Dir && len(n.Children) > 0
		err, ok := x.call("Remove", func() error { return x.fs.Remove(fsPath(op.P)) })
		if !ok {
			return
		}
		if nonEmpty {
			if err == nil {
				x.fail("remove-nonempty", "Remove(%q) of a non-empty directory succeeded", op.P)
			}
			return
		}
		if err != nil {
			x.r.Class("refused:remove")
			x.resync(src)
			return
		}
		_ = x.m.Remove(src)
		x.sawRelease = true
	case "reopen":
		x.reopen()
	case "fillcycle":
		x.fillCycle(op)
	case "popcycle":
		x.popCycle(op)
	case "squeeze":
		x.squeeze(op)
	case "interleave2":
		x.interleave2(op)
	case "chtimes", "attr":
		x.attrOp(op)
	}
}

type snap struct {
	exists bool
	data   []byte
}

func (x *fatRun) snapshot(p string) snap {
	n := x.m.Lookup(p)
	if n == nil {
		return snap{}
	}
	return snap{true, append([]byte(nil), n.Data...)}
}

func (x *fatRun) restore(p string, s snap) {
	if !s.exists {
		x.m.Drop(p)
		return
	}
	if n := x.m.Lookup(p); n != nil {
		n.Data = s.data
	}
}

// canon returns the path with the model's spelling of the last component.
func (x *fatRun) canon(p string) string {
	n := x.m.Lookup(p)
	if n == nil {
		return p
	}
	if i := strings.LastIndex(p, "/"); i >= 0 {
		return x.canonDir(p[:i]) + "/" + n.Name
	}
	return n.Name
}

func (x *fatRun) canonDir(d string) string {
	parts := strings.Split(d, "/")
	out := ""
	for _, c := range parts {
		n := x.m.Lookup(model.Join(out, c))
		if n == nil {
			return d
		}
		out = model.Join(out, n.Name)
	}
	return out
}

// fillCycle: append chunks to one file until the volume refuses, remove the
// file, repeat; every round must store at least as much as the first.
func (x *fatRun) fillCycle(op fsOp) {
	if x.m.Lookup(op.P) != nil {
		return
	}
	dir := ""
	if i := strings.LastIndex(op.P, "/"); i >= 0 {
		dir = op.P[:i]
	}
	if x.m.Lookup(dir) == nil {
		return
	}
	first := -1
	limit := int(x.c.Cfg.Size/int64(op.Chunk)) + 8
	for round := 0; round < op.N; round++ {
		stored := 0
		n, _ := x.m.Create(op.P)
		created := false
		for i := 0; i < limit; i++ {
			data := mk.Content{Seed: op.D.Seed*1000 + uint32(i), Len: op.Chunk}.Bytes()
			flag := os.O_RDWR | os.O_APPEND
			if !created {
				flag = os.O_RDWR | os.O_CREATE
			}
			old := len(n.Data)
			n.WriteAt(int64(old), data)
			err := x.openWrite(op.P, flag, 0, data, i%16 == 0)
			if x.r.Failed() {
				return
			}
			if err != nil {
				n.Data = n.Data[:old]
				x.sawENOSPC = true
				x.r.Class("refused:fill")
				x.resync(op.P)
				n = x.m.Lookup(op.P)
				break
			}
			created = true
			stored++
		}
		// top up with ever smaller appends until not even one byte fits: the last cluster of the volume
		// is only reached this way (the chunk that was refused may have been many clusters long)
		for sz := op.Chunk / 2; sz >= 1 && n != nil && created && !x.r.Failed(); {
			data := mk.Content{Seed: op.D.Seed*1000 + 900 + uint32(sz%97), Len: sz}.Bytes()
			old := len(n.Data)
			n.WriteAt(int64(old), data)
			if err := x.openWrite(op.P, os.O_RDWR|os.O_APPEND, 0, data, false); err != nil {
				n.Data = n.Data[:old]
				x.resync(op.P)
				if n = x.m.Lookup(op.P); n == nil {
					break
				}
				sz /= 2
				continue
			}
			x.r.Class("fill-topup")
		}
		if x.r.Failed() {
			return
		}
		x.compare(fmt.Sprintf("fill round %d after %d chunks of %d", round, stored, op.Chunk))
		x.structural(fmt.Sprintf("fill round %d full", round))
		if x.r.Failed() {
			return
		}
		if first < 0 {
			first = stored
		} else if stored < first {
			x.fail("space-not-reusable", "fill round %d stored %d chunks of %d bytes, round 0 stored %d: space released by Remove is not usable again", round, stored, op.Chunk, first)
			return
		}
		if x.m.Lookup(op.P) != nil {
			err, ok := x.call("Remove", func() error { return x.fs.Remove(fsPath(op.P)) })
			if !ok {
				return
			}
			if err != nil {
				x.fail("remove-failed", "Remove(%q) of the fill file fails: %v", op.P, err)
				return
			}
			_ = x.m.Remove(op.P)
			x.sawRelease = true
		}
		x.compare(fmt.Sprintf("fill round %d after remove", round))
		x.structural(fmt.Sprintf("fill round %d emptied", round))
		if x.r.Failed() {
			return
		}
		if round > 0 {
			x.mutAfterRelease = true
		}
	}
}

// squeeze: fill the volume completely with a new file, remove the existing file op.P, then append as many
// bytes as it held to the existing file op.Q. The append needs at most the clusters the removal released,
// whichever clusters those are, so it must succeed ("space released by remove can be used again").
func (x *fatRun) squeeze(op fsOp) {
	vn, gn := x.m.Lookup(op.P), x.m.Lookup(op.Q)
	if vn == nil || gn == nil || vn == gn || vn.Dir || gn.Dir || len(vn.Data) == 0 {
		return
	}
	victim, grow := x.canon(op.P), x.canon(op.Q)
	fill := fmt.Sprintf("SQZ%d.BIN", op.D.Seed)
	if x.m.Lookup(fill) != nil {
		return
	}
	fnode, _ := x.m.Create(fill)
	created := false
	limit := int(x.c.Cfg.Size/int64(op.Chunk)) + 8
	appendFill := func(data []byte) bool {
		flag := os.O_RDWR | os.O_APPEND
		if !created {
			flag = os.O_RDWR | os.O_CREATE
		}
		old := len(fnode.Data)
		fnode.WriteAt(int64(old), data)
		if err := x.openWrite(fill, flag, 0, data, false); err != nil || x.r.Failed() {
			fnode.Data = fnode.Data[:old]
			x.resync(fill)
			fnode = x.m.Lookup(fill)
			return false
		}
		created = true
		return true
	}
	for i := 0; i < limit && fnode != nil; i++ {
		if !appendFill(mk.Content{Seed: op.D.Seed*1000 + uint32(i), Len: op.Chunk}.Bytes()) {
			break
		}
	}
	for sz := op.Chunk / 2; sz >= 1 && fnode != nil && created && !x.r.Failed(); {
		if !appendFill(mk.Content{Seed: op.D.Seed*1000 + 900 + uint32(sz%97), Len: sz}.Bytes()) {
			sz /= 2
		}
	}
	if x.r.Failed() {
		return
	}
	if !created || fnode == nil {
		// the fill file could not even be created (root directory full): nothing to squeeze against
		if fnode != nil {
			_ = x.m.Remove(fill)
			x.resync(fill)
		}
		return
	}
	x.sawENOSPC = true
	x.r.Class("squeeze:full")
	n := len(vn.Data)
	err, ok := x.call("Remove", func() error { return x.fs.Remove(fsPath(victim)) })
	if !ok {
		return
	}
	if err != nil {
		x.fail("remove-failed", "Remove(%q) on a full volume fails: %v", victim, err)
		return
	}
	_ = x.m.Remove(victim)
	x.sawRelease = true
	data := mk.Content{Seed: op.D.Seed*1000 + 999, Len: n}.Bytes()
	gn = x.m.Lookup(grow)
	old := len(gn.Data)
	gn.WriteAt(int64(old), data)
	if err := x.openWrite(grow, os.O_RDWR|os.O_APPEND, 0, data, true); err != nil {
		if x.r.Failed() {
			return
		}
		x.fail("space-not-reusable", "on a full volume %q (%d bytes) was removed, then appending %d bytes to %q (%d bytes) fails: %v - space released by Remove is not usable again", victim, n, n, grow, old, err)
		return
	}
	if x.r.Failed() {
		return
	}
	x.noteMut()
	x.compare("squeeze after the append")
	x.structural("squeeze after the append")
	if x.r.Failed() {
		return
	}
	err, ok = x.call("Remove", func() error { return x.fs.Remove(fsPath(fill)) })
	if !ok {
		return
	}
	if err != nil {
		x.fail("remove-failed", "Remove(%q) of the fill file fails: %v", fill, err)
		return
	}
	_ = x.m.Remove(fill)
}

// popCycle: create entries in a directory until refused (or Chunk entries),
// remove them all, repeat; every round must hold at least as many as the first.
func (x *fatRun) popCycle(op fsOp) {
	dn := x.m.Lookup(op.P)
	if dn == nil || !dn.Dir {
		return
	}
	name := func(i int) string {
		if op.Long {
			return fmt.Sprintf("populated entry %04d of cycle %d.dat", i, op.D.Seed)
		}
		return fmt.Sprintf("P%d_%04d.D", op.D.Seed%100, i)
	}
	first := -1
	for round := 0; round < op.N; round++ {
		made := 0
		for i := 0; i < op.Chunk; i++ {
			p := model.Join(op.P, name(i))
			if x.m.Lookup(p) != nil {
				continue
			}
			err := x.openWrite(p, os.O_RDWR|os.O_CREATE, 0, nil, false)
			if x.r.Failed() {
				return
			}
			if err != nil {
				x.sawENOSPC = true
				x.r.Class("refused:populate")
				x.resync(p)
				// the directory (or the volume) is full: a Mkdir there takes the other refusal path - it has
				// reserved a cluster for the new directory before it finds that the parent cannot take the entry
				sub := model.Join(op.P, fmt.Sprintf("SUBD%d", round))
				if x.m.Lookup(sub) == nil {
					merr, ok := x.call("Mkdir", func() error { return x.fs.Mkdir(fsPath(sub)) })
					if !ok {
						return
					}
					if merr == nil {
						_ = x.m.Mkdir(sub)
					} else {
						x.r.Class("refused:mkdir-in-full-directory")
						x.resync(sub)
					}
				}
				break
			}
			_, _ = x.m.Create(p)
			made++
		}
		if made > 16 {
			x.grew = true
		}
		x.compare(fmt.Sprintf("populate round %d after %d entries", round, made))
		x.structural(fmt.Sprintf("populate round %d", round))
		if x.r.Failed() {
			return
		}
		if first < 0 {
			first = made
		} else if made < first {
			x.fail("entries-not-reusable", "populate round %d created %d entries in %q, round 0 created %d", round, made, op.P, first)
			return
		}
		for i := 0; i < op.Chunk; i++ {
			p := model.Join(op.P, name(i))
			if x.m.Lookup(p) == nil {
				continue
			}
			err, ok := x.call("Remove", func() error { return x.fs.Remove(fsPath(p)) })
			if !ok {
				return
			}
			if err != nil {
				x.fail("remove-failed", "Remove(%q) fails: %v", p, err)
				return
			}
			_ = x.m.Remove(p)
			x.sawRelease = true
		}
		if sub := model.Join(op.P, fmt.Sprintf("SUBD%d", round)); x.m.Lookup(sub) != nil {
			if err, ok := x.call("Remove", func() error { return x.fs.Remove(fsPath(sub)) }); !ok {
				return
			} else if err != nil {
				x.fail("remove-failed", "Remove(%q) fails: %v", sub, err)
				return
			}
			_ = x.m.Remove(sub)
		}
		x.compare(fmt.Sprintf("populate round %d after removing", round))
		x.structural(fmt.Sprintf("populate round %d emptied", round))
		if x.r.Failed() {
			return
		}
		if round > 0 {
			x.mutAfterRelease = true
		}
	}
}

// interleave2: two handles live in the same directory, written alternately.
func (x *fatRun) interleave2(op fsOp) {
	if x.m.Lookup(op.P) != nil || x.m.Lookup(op.Q) != nil {
		return
	}
	x.r.Class("two-live-handles")
	na, _ := x.m.Create(op.P)
	nb, _ := x.m.Create(op.Q)
	if na == nil || nb == nil {
		return
	}
	var failed error
	x.call("interleaved writes", func() error {
		fa, err := x.fs.OpenFile(fsPath(op.P), os.O_RDWR|os.O_CREATE)
		if err != nil {
			failed = err
			return nil
		}
		defer fa.Close()
		fb, err := x.fs.OpenFile(fsPath(op.Q), os.O_RDWR|os.O_CREATE)
		if err != nil {
			failed = err
			return nil
		}
		defer fb.Close()
		for r := 0; r < op.N; r++ {
			da := mk.Content{Seed: op.D.Seed + uint32(2*r), Len: op.Chunk}.Bytes()
			db := mk.Content{Seed: op.D.Seed + uint32(2*r+1), Len: op.Chunk}.Bytes()
			if _, err := fa.Write(da); err != nil {
				failed = err
				return nil
			}
			na.WriteAt(int64(len(na.Data)), da)
			if _, err := fb.Write(db); err != nil {
				failed = err
				return nil
			}
			nb.WriteAt(int64(len(nb.Data)), db)
		}
		return nil
	})
	if failed != nil {
		x.r.Class("refused:interleave2")
		x.resync(op.P)
		x.resync(op.Q)
	}
}

func init() { _ = iofs.ErrInvalid }

// attrOp is filled in by the C19 machinery (FAT timestamps and attribute flags).
func (x *fatRun) attrOp(op fsOp) { fatAttrOp(x, op) }

func (x *fatRun) nodes() int { return x.m.Count() }
