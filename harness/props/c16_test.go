package props

// C16 — CopyFileSystem copies faithfully and CompareFS tells the truth.

import (
	"bytes"
	"fmt"
	iofs "io/fs"
	"os"
	"path"
	"sort"
	"strings"
	"testing"
	"testing/fstest"

	"github.com/diskfs/go-diskfs/filesystem"
	"github.com/diskfs/go-diskfs/filesystem/ext4"
	"github.com/diskfs/go-diskfs/filesystem/iso9660"
	"github.com/diskfs/go-diskfs/filesystem/squashfs"
	dsync "github.com/diskfs/go-diskfs/sync"
	"pgregory.net/rapid"

	"verifharness/dev"
	"verifharness/hx"
	"verifharness/mk"
)

type c16Mut struct {
	K    string `json:"k"` // flip, grow, shrink, missing, extra, kind
	Path string `json:"path,omitempty"`
	Pos  int    `json:"pos,omitempty"`
}

type c16Case struct {
	Mode string     `json:"mode"` // copy | compare
	Tree []mk.Entry `json:"tree"`
	Src  string     `json:"src"` // dirfs mapfs fat32 ext4 iso9660 squashfs
	Dst  string     `json:"dst"` // fat12 fat16 fat32 ext4 (copy); mapfs fat32 ext4 squashfs (compare: materialisation of B)
	Mut  *c16Mut    `json:"mut,omitempty"`
	Full bool       `json:"full,omitempty"` // copy into a destination that is too small (must fail)
	Big  *c16Big    `json:"big,omitempty"`  // mode bigcopy: the streaming path for files above 64 MiB
	Excl []c16Excl  `json:"excl,omitempty"` // compare: entries with an excluded name (ignored by CompareFS wherever they are)
}

// c16Excl is an entry named like one of the documented excluded names, as a file or as a directory with a file
// inside, present on one side or on both. It never changes the verdict.
type c16Excl struct {
	Dir   string `json:"dir"` // "" = root
	Name  string `json:"name"`
	IsDir bool   `json:"isdir,omitempty"`
	In    string `json:"in"` // both | a | b
}

func genC16(t *rapid.T) any {
	c := c16Case{}
	if rapid.IntRange(0, 39).Draw(t, "bigcopy") == 0 {
		c.Mode = "bigcopy"
		c.Big = genC16Big(t)
		return c
	}
	c.Mode = rapid.SampledFrom([]string{"copy", "copy", "compare"}).Draw(t, "mode")
	if c.Mode == "copy" {
		c.Src = rapid.SampledFrom([]string{"dirfs", "mapfs", "fat32", "ext4", "iso9660", "squashfs"}).Draw(t, "src")
		c.Dst = rapid.SampledFrom([]string{"fat12", "fat16", "fat32", "ext4"}).Draw(t, "dst")
	} else {
		c.Src = "mapfs"
		c.Dst = rapid.SampledFrom([]string{"mapfs", "fat32", "ext4", "squashfs", "dirfs"}).Draw(t, "bkind")
	}
	names := "fat" // the non-aliasing FAT-legal domain is representable everywhere
	o := treeOpts{maxEntries: 12, maxDepth: 4, unit: 32768, names: names, maxFile: 100000, styles: []int{0, 2}}
	if rapid.IntRange(0, 4).Draw(t, "bigFile") == 0 {
		o.maxFile = 200000
	}
	c.Tree = dedupeTree(genTree(t, o))
	// symlinks only where both sides can hold them
	if c.Mode == "copy" && c.Src == "ext4" && c.Dst == "ext4" && rapid.Bool().Draw(t, "withLink") {
		c.Tree = append(c.Tree, mk.Entry{Path: "link-to-x", Kind: mk.KLink, Target: "some/where"})
	}
	if c.Mode == "copy" && rapid.IntRange(0, 5).Draw(t, "excluded") == 0 {
		c.Tree = append(c.Tree, mk.Entry{Path: ".DS_Store", Kind: mk.KFile, Data: mk.Content{Seed: 99, Len: 10}})
	}
	if c.Mode == "copy" && rapid.IntRange(0, 9).Draw(t, "full") == 0 {
		c.Full = true
		c.Tree = append(c.Tree, mk.Entry{Path: "HUGE.BIN", Kind: mk.KFile, Data: mk.Content{Seed: 98, Len: 3 << 20}})
	}
	if c.Mode == "compare" && rapid.IntRange(0, 2).Draw(t, "mutate") != 0 {
		var files, all []string
		for _, e := range c.Tree {
			all = append(all, e.Path)
			if e.Kind == mk.KFile {
				files = append(files, e.Path)
			}
		}
		kinds := []string{"extra", "extra"}
		if len(all) > 0 {
			kinds = append(kinds, "missing", "kind")
		}
		if len(files) > 0 {
			kinds = append(kinds, "flip", "flip", "grow", "shrink")
		}
		m := &c16Mut{K: rapid.SampledFrom(kinds).Draw(t, "mutKind")}
		switch m.K {
		case "flip", "grow", "shrink":
			m.Path = rapid.SampledFrom(files).Draw(t, "mutFile")
			m.Pos = rapid.SampledFrom([]int{0, 1, 32767, 32768, 32769, 65535, 65536, -1, -2}).Draw(t, "mutPos")
		case "missing", "kind":
			m.Path = rapid.SampledFrom(all).Draw(t, "mutPath")
		case "extra":
			// the extra entry goes into a generated directory (or the root) under a name that sorts before or
			// after everything else there
			dirs := []string{""}
			for _, e := range c.Tree {
				if e.Kind == mk.KDir {
					dirs = append(dirs, e.Path)
				}
			}
			m.Path = rapid.SampledFrom(dirs).Draw(t, "extraDir")
			m.Pos = rapid.IntRange(0, 1).Draw(t, "extraLast")
		}
		c.Mut = m
	}
	if c.Mode == "compare" && rapid.IntRange(0, 1).Draw(t, "withExcluded") == 0 {
		dirs := []string{""}
		for _, e := range c.Tree {
			if e.Kind == mk.KDir {
				dirs = append(dirs, e.Path)
			}
		}
		if c.Mut != nil && c.Mut.K == "extra" {
			dirs = []string{c.Mut.Path, c.Mut.Path, ""} // mostly next to the extra entry
		}
		for i := 0; i < rapid.IntRange(1, 2).Draw(t, "nExcluded"); i++ {
			c.Excl = append(c.Excl, c16Excl{Dir: rapid.SampledFrom(dirs).Draw(t, "exclDir"), Name: rapid.SampledFrom([]string{".DS_Store", "lost+found", "System Volume Information"}).Draw(t, "exclName"),
				IsDir: rapid.Bool().Draw(t, "exclIsDir"), In: rapid.SampledFrom([]string{"both", "a", "b", "b"}).Draw(t, "exclIn")})
		}
	}
	return c
}

// c16ExclEntries are the tree entries an excluded-name item adds to side "a" or "b".
func c16ExclEntries(xs []c16Excl, side string, have []mk.Entry) []mk.Entry {
	taken := map[string]bool{}
	for _, e := range have {
		taken[strings.ToLower(e.Path)] = true
	}
	isDir := map[string]bool{"": true}
	for _, e := range have {
		if e.Kind == mk.KDir {
			isDir[e.Path] = true
		}
	}
	var out []mk.Entry
	for i, x := range xs {
		if x.In != "both" && x.In != side {
			continue
		}
		if !isDir[x.Dir] {
			continue // the mutation removed (or replaced) the directory on this side
		}
		p := x.Name
		if x.Dir != "" {
			p = x.Dir + "/" + x.Name
		}
		if taken[strings.ToLower(p)] {
			continue
		}
		taken[strings.ToLower(p)] = true
		if x.IsDir {
			out = append(out, mk.Entry{Path: p, Kind: mk.KDir}, mk.Entry{Path: p + "/INNER.TXT", Kind: mk.KFile, Data: mk.Content{Seed: uint32(70 + i), Len: 33}})
		} else {
			out = append(out, mk.Entry{Path: p, Kind: mk.KFile, Data: mk.Content{Seed: uint32(80 + i), Len: 21 + i}})
		}
	}
	return out
}

// c16FS materialises a tree as a filesystem of the given kind; returns an fs.FS view and, for image kinds, a cleanup.
func c16FS(kind string, tree []mk.Entry, scratch string) (iofs.FS, error) {
	switch kind {
	case "mapfs":
		m := fstest.MapFS{}
		for _, e := range tree {
			switch e.Kind {
			case mk.KDir:
				m[e.Path] = &fstest.MapFile{Mode: iofs.ModeDir | 0o755}
			case mk.KFile:
				m[e.Path] = &fstest.MapFile{Data: e.Data.Bytes(), Mode: 0o644}
			case mk.KLink:
				m[e.Path] = &fstest.MapFile{Data: []byte(e.Target), Mode: iofs.ModeSymlink | 0o777}
			}
		}
		return m, nil
	case "dirfs":
		d, err := os.MkdirTemp(scratch, "dirfs")
		if err != nil {
			return nil, err
		}
		if err := mk.Materialize(d, tree); err != nil {
			return nil, err
		}
		return os.DirFS(d), nil
	case "fat12", "fat16", "fat32", "ext4":
		fs, _, err := c16NewWritable(kind, 0)
		if err != nil {
			return nil, err
		}
		es := append([]mk.Entry(nil), tree...)
		mk.SortEntries(es)
		for _, e := range es {
			p := e.Path
			if kind != "ext4" {
				p = "/" + p
			}
			switch e.Kind {
			case mk.KDir:
				if err := fs.Mkdir(p); err != nil {
					return nil, fmt.Errorf("mkdir %s: %w", p, err)
				}
			case mk.KFile:
				f, err := fs.OpenFile(p, os.O_CREATE|os.O_RDWR)
				if err != nil {
					return nil, fmt.Errorf("create %s: %w", p, err)
				}
				if b := e.Data.Bytes(); len(b) > 0 {
					if _, err := f.Write(b); err != nil {
						return nil, fmt.Errorf("write %s: %w", p, err)
					}
				}
				f.Close()
			case mk.KLink:
				if err := fs.Symlink(e.Target, p); err != nil {
					return nil, fmt.Errorf("symlink %s: %w", p, err)
				}
			}
		}
		return fs, nil
	case "iso9660":
		d := dev.New(16 << 20)
		if err := mk.BuildISO(d, 16<<20, 0, 2048, tree, mk.IsoOpts{RockRidge: true}); err != nil {
			return nil, err
		}
		return iso9660.Read(d, 16<<20, 0, 2048)
	case "squashfs":
		d := dev.New(16 << 20)
		if err := mk.BuildSquashfs(d, 16<<20, 0, 4096, tree, mk.SqOpts{Comp: "gzip", Level: 6}); err != nil {
			return nil, err
		}
		return squashfs.Read(d, 16<<20, 0, 4096)
	}
	return nil, fmt.Errorf("unknown kind %s", kind)
}

func c16NewWritable(kind string, size int64) (filesystem.FileSystem, *dev.Device, error) {
	if size == 0 {
		size = map[string]int64{"fat12": 8<<20 - 512, "fat16": 16 << 20, "fat32": 16 << 20, "ext4": 24 << 20}[kind]
	}
	d := dev.New(size)
	if kind == "ext4" {
		fs, err := mk.CreateExt4(d, size, 0, mk.E4Opts{})
		return fs, d, err
	}
	fs, err := mk.CreateFAT(kind, d, size, 0, 512, "C16", true)
	return fs, d, err
}

type c16Node struct {
	dir  bool
	link bool
	data []byte
}

func c16Walk(fsys iofs.FS) (map[string]c16Node, error) {
	out := map[string]c16Node{}
	rd, ok := fsys.(iofs.ReadDirFS)
	if !ok {
		return nil, fmt.Errorf("no ReadDir")
	}
	err := walkLimited(rd, ".", 0, func(p string, de iofs.DirEntry, werr error) error {
		if werr != nil {
			return fmt.Errorf("walk %q: %w", clip(p), werr)
		}
		n := c16Node{dir: de.IsDir(), link: de.Type()&iofs.ModeSymlink != 0}
		if !n.dir && !n.link {
			b, err := iofs.ReadFile(fsys, p)
			if err != nil {
				return fmt.Errorf("ReadFile %q: %w", clip(p), err)
			}
			n.data = b
		}
		out[p] = n
		return nil
	})
	return out, err
}

var c16Excluded = map[string]bool{"lost+found": true, ".DS_Store": true, "System Volume Information": true}

func execC16(ci any) (r hx.Result) {
	c := ci.(c16Case)
	if c.Mode == "bigcopy" && c.Big != nil {
		execC16Big(&r, c.Big)
		return
	}
	r.Class("mode:" + c.Mode)
	scratch, err := os.MkdirTemp("", "verif_c16")
	if err != nil {
		r.Discard = true
		return
	}
	defer os.RemoveAll(scratch)
	st := treeStatsOf(c.Tree, 32768)
	if c.Mode == "copy" {
		r.Class("pair:" + c.Src + "->" + c.Dst)
		tree := c.Tree
		if c.Src == "iso9660" {
			tree = rrSafeTree("C16", tree)
		}
		if c.Src == "squashfs" {
			tree = sqSafeTree("C16", tree)
		}
		var src iofs.FS
		var serr error
		if p, pv, stk := hx.Safe(func() { src, serr = c16FS(c.Src, tree, scratch) }); p {
			r.Discard = true
			r.Note("building the source panicked: %v %s", pv, firstWords(stk, 3))
			return
		}
		if serr != nil {
			r.Discard = true
			r.Note("source refused: %s", firstWords(serr.Error(), 6))
			return
		}
		size := int64(0)
		if c.Full {
			size = map[string]int64{"fat12": 1 << 20, "fat16": 4400 << 10, "fat32": 2 << 20, "ext4": 8 << 20}[c.Dst]
			if c.Dst == "fat16" || c.Dst == "ext4" {
				size = 0 // their minimum size holds the 3 MiB file
			}
		}
		dst, _, derr := c16NewWritable(c.Dst, size)
		if derr != nil {
			r.Discard = true
			return
		}
		var cerr error
		fin := hx.WithTimeout(10*watchdog(), func() {
			if p, pv, stk := hx.Safe(func() { cerr = dsync.CopyFileSystem(src, dst) }); p {
				r.Fail("copy-panic:"+panicKind(pv), "CopyFileSystem(%s -> %s) panicked: %v [%s]", c.Src, c.Dst, pv, stk)
			}
		})
		if !fin {
			r.Fail("copy-hang", "CopyFileSystem(%s -> %s) did not return", c.Src, c.Dst)
		}
		if r.Failed() {
			return
		}
		hasLink := false
		for _, e := range tree {
			if e.Kind == mk.KLink {
				hasLink = true
			}
		}
		if st.depth >= 2 && st.multiBlock > 0 {
			r.Nontrivial = true
		}
		if cerr != nil {
			// an error is correct only for an unrepresentable case
			if (c.Full && size != 0) || (hasLink && c.Dst != "ext4") {
				r.Class("copy-refused-unrepresentable")
				return
			}
			r.Fail("copy-error", "CopyFileSystem(%s -> %s) fails although the tree is representable: %v", c.Src, c.Dst, cerr)
			return
		}
		if c.Full && size != 0 {
			r.Fail("copy-full-accepted", "CopyFileSystem(%s -> %s) returned nil although the destination (%d bytes) cannot hold the 3 MiB file", c.Src, c.Dst, size)
			return
		}
		got, werr := c16Walk(dst)
		if werr != nil {
			r.Fail("copy-readback", "reading the destination %s after the copy fails: %v", c.Dst, werr)
			return
		}
		want := map[string]mk.Entry{}
		for _, e := range tree {
			skip := false
			for _, comp := range strings.Split(e.Path, "/") {
				if c16Excluded[comp] {
					skip = true
				}
			}
			if !skip {
				want[e.Path] = e
			}
		}
		fold := func(s string) string { return s }
		if c.Dst != "ext4" {
			fold = strings.ToLower
		}
		gotF := map[string]c16Node{}
		for p, n := range got {
			if c16Excluded[path.Base(p)] {
				continue
			}
			gotF[fold(p)] = n
		}
		var missing, extra []string
		for p := range want {
			if _, ok := gotF[fold(p)]; !ok {
				missing = append(missing, p)
			}
		}
		wantF := map[string]bool{}
		for p := range want {
			wantF[fold(p)] = true
		}
		for p := range gotF {
			if !wantF[p] {
				extra = append(extra, p)
			}
		}
		sort.Strings(missing)
		sort.Strings(extra)
		if len(missing)+len(extra) > 0 {
			r.Fail("copy-tree", "after CopyFileSystem(%s -> %s): missing %s, unexpected %s", c.Src, c.Dst, shortList(missing), shortList(extra))
			return
		}
		for p, e := range want {
			g := gotF[fold(p)]
			switch e.Kind {
			case mk.KDir:
				if !g.dir {
					r.Fail("copy-kind", "%q: directory in the source, not in the copy", p)
					return
				}
			case mk.KFile:
				if g.dir {
					r.Fail("copy-kind", "%q: file in the source, directory in the copy", p)
					return
				}
				if wd := e.Data.Bytes(); !bytes.Equal(g.data, wd) {
					r.Fail("copy-content", "%q (%d bytes) after CopyFileSystem(%s -> %s): %s", p, e.Data.Len, c.Src, c.Dst, diffAt(g.data, wd))
					return
				}
			}
		}
		return
	}
	// ---- compare ----
	r.Class("b:" + c.Dst)
	treeB := append([]mk.Entry(nil), c.Tree...)
	equal := true
	if c.Mut != nil {
		equal = false
		r.Class("mut:" + c.Mut.K)
		m := c.Mut
		idx := -1
		for i, e := range treeB {
			if e.Path == m.Path {
				idx = i
			}
		}
		switch m.K {
		case "extra":
			name := "!EXTRA.TXT"
			if m.Pos == 1 {
				name = "zz-extra.txt"
			}
			if m.Path != "" {
				name = m.Path + "/" + name
			}
			treeB = append(treeB, mk.Entry{Path: name, Kind: mk.KFile, Data: mk.Content{Seed: 7, Len: 5}})
		case "missing":
			var nt []mk.Entry
			for _, e := range treeB {
				if e.Path != m.Path && !strings.HasPrefix(e.Path, m.Path+"/") {
					nt = append(nt, e)
				}
			}
			treeB = nt
		case "kind":
			var nt []mk.Entry
			for _, e := range treeB {
				if strings.HasPrefix(e.Path, m.Path+"/") {
					continue
				}
				if e.Path == m.Path {
					if e.Kind == mk.KDir {
						e = mk.Entry{Path: e.Path, Kind: mk.KFile, Data: mk.Content{Seed: 3, Len: 9}}
					} else {
						e = mk.Entry{Path: e.Path, Kind: mk.KDir}
					}
				}
				nt = append(nt, e)
			}
			treeB = nt
		case "flip", "grow", "shrink":
			if idx < 0 {
				r.Discard = true
				return
			}
			// content mutations are applied on materialised bytes below
		}
	}
	treeA := append(append([]mk.Entry(nil), c.Tree...), c16ExclEntries(c.Excl, "a", c.Tree)...)
	treeB = append(treeB, c16ExclEntries(c.Excl, "b", treeB)...)
	if len(c.Excl) > 0 {
		r.Class("excluded-names-present")
	}
	a, err := c16FS("mapfs", treeA, scratch)
	if err != nil {
		r.Discard = true
		return
	}
	// B with byte-level mutation: MapFS supports arbitrary content; for image kinds write the mutated bytes via a custom tree
	var b iofs.FS
	mutated := map[string][]byte{}
	if c.Mut != nil && (c.Mut.K == "flip" || c.Mut.K == "grow" || c.Mut.K == "shrink") {
		for _, e := range c.Tree {
			if e.Path == c.Mut.Path {
				data := e.Data.Bytes()
				pos := c.Mut.Pos
				if pos < 0 {
					pos = len(data) + pos
				}
				switch c.Mut.K {
				case "flip":
					if len(data) == 0 {
						data = []byte{1}
					} else {
						if pos < 0 || pos >= len(data) {
							pos = len(data) - 1
						}
						data = append([]byte(nil), data...)
						data[pos] ^= 0x40
					}
				case "grow":
					data = append(append([]byte(nil), data...), 0x21)
				case "shrink":
					if len(data) == 0 {
						data = []byte{2}
					} else {
						data = data[:len(data)-1]
					}
				}
				mutated[e.Path] = data
				if pos > 32768 || len(data) > 32768 {
					r.Nontrivial = true
				}
			}
		}
	}
	if p, pv, stk := hx.Safe(func() { b, err = c16FSBytes(c.Dst, treeB, mutated, scratch) }); p {
		r.Discard = true
		r.Note("building B panicked: %v %s", pv, firstWords(stk, 3))
		return
	}
	if err != nil {
		r.Discard = true
		r.Note("B refused: %s", firstWords(err.Error(), 6))
		return
	}
	if st.depth >= 2 && st.multiBlock > 0 && c.Mut != nil {
		r.Nontrivial = true
	}
	for _, order := range []string{"A,B", "B,A"} {
		x, y := a, b
		if order == "B,A" {
			x, y = b, a
		}
		var cerr error
		fin := hx.WithTimeout(10*watchdog(), func() {
			if p, pv, stk := hx.Safe(func() { cerr = dsync.CompareFS(x, y) }); p {
				r.Fail("compare-panic:"+panicKind(pv), "CompareFS(%s) panicked: %v [%s]", order, pv, stk)
			}
		})
		if !fin {
			r.Fail("compare-hang", "CompareFS(%s) did not return", order)
		}
		if r.Failed() {
			return
		}
		if equal && cerr != nil {
			r.Fail("compare-false-difference", "CompareFS(%s) of two equal trees (B as %s) reports a difference: %v", order, c.Dst, cerr)
			return
		}
		if !equal && cerr == nil {
			r.Fail("compare-missed:"+c.Mut.K, "CompareFS(%s) returns nil although B (as %s) differs by one %s mutation at %q (pos %d)", order, c.Dst, c.Mut.K, c.Mut.Path, c.Mut.Pos)
			return
		}
	}
	return
}

// c16FSBytes is c16FS with some file contents overridden.
func c16FSBytes(kind string, tree []mk.Entry, override map[string][]byte, scratch string) (iofs.FS, error) {
	if len(override) == 0 {
		return c16FS(kind, tree, scratch)
	}
	switch kind {
	case "mapfs":
		fsys, err := c16FS(kind, tree, scratch)
		if err != nil {
			return nil, err
		}
		m := fsys.(fstest.MapFS)
		for p, d := range override {
			m[p] = &fstest.MapFile{Data: d, Mode: 0o644}
		}
		return m, nil
	case "dirfs", "squashfs":
		d, err := os.MkdirTemp(scratch, "ovr")
		if err != nil {
			return nil, err
		}
		if err := mk.Materialize(d, tree); err != nil {
			return nil, err
		}
		for p, data := range override {
			if err := os.WriteFile(d+"/"+p, data, 0o644); err != nil {
				return nil, err
			}
		}
		if kind == "dirfs" {
			return os.DirFS(d), nil
		}
		dv := dev.New(16 << 20)
		sq, err := squashfs.Create(dv, 16<<20, 0, 4096)
		if err != nil {
			return nil, err
		}
		defer sq.Close()
		// copy the prepared directory into the workspace
		if err := os.CopyFS(sq.Workspace(), os.DirFS(d)); err != nil {
			return nil, err
		}
		if err := sq.Finalize(squashfs.FinalizeOptions{Compression: &squashfs.CompressorGzip{}}); err != nil {
			return nil, err
		}
		return squashfs.Read(dv, 16<<20, 0, 4096)
	default: // fat32, ext4: write, then overwrite the file with the mutated bytes
		fsys, err := c16FS(kind, tree, scratch)
		if err != nil {
			return nil, err
		}
		w := fsys.(filesystem.FileSystem)
		for p, data := range override {
			pp := p
			if kind != "ext4" {
				pp = "/" + p
			}
			if err := w.Remove(pp); err != nil && kind != "ext4" {
				return nil, err
			}
			if kind == "ext4" {
				// ext4 Remove is a recorded finding: rebuild the volume with the mutated content instead
				return c16Ext4With(tree, override)
			}
			f, err := w.OpenFile(pp, os.O_CREATE|os.O_RDWR)
			if err != nil {
				return nil, err
			}
			if len(data) > 0 {
				if _, err := f.Write(data); err != nil {
					return nil, err
				}
			}
			f.Close()
		}
		return fsys, nil
	}
}

func c16Ext4With(tree []mk.Entry, override map[string][]byte) (iofs.FS, error) {
	fs, _, err := c16NewWritable("ext4", 0)
	if err != nil {
		return nil, err
	}
	es := append([]mk.Entry(nil), tree...)
	mk.SortEntries(es)
	for _, e := range es {
		switch e.Kind {
		case mk.KDir:
			if err := fs.Mkdir(e.Path); err != nil {
				return nil, err
			}
		case mk.KFile:
			f, err := fs.OpenFile(e.Path, os.O_CREATE|os.O_RDWR)
			if err != nil {
				return nil, err
			}
			data := e.Data.Bytes()
			if o, ok := override[e.Path]; ok {
				data = o
			}
			if len(data) > 0 {
				if _, err := f.Write(data); err != nil {
					return nil, err
				}
			}
			f.Close()
		}
	}
	return fs.(*ext4.FileSystem), nil
}

func init() {
	hx.Register(&hx.Spec{ID: "C16", Gen: genC16, Exec: execC16, New: func() any { return new(c16Case) },
		Rule: "case = generated tree (non-aliasing FAT-legal names, files up to 200 KB incl. sizes around the 32 KiB compare buffer) and either a copy pairing source in {os.DirFS, MapFS, fat32, ext4, iso9660 RR, squashfs} x destination in {fat12, fat16, fat32, ext4} (plus excluded names, symlinks where both sides hold them, a destination that is too small) or a CompareFS pair A (MapFS) vs B (MapFS / dirfs / fat32 / ext4 / squashfs) that is equal or differs by exactly one mutation (byte flip at a buffer boundary, length +-1, missing entry, extra entry, file<->directory), checked in both argument orders; or (mode bigcopy, 1 case in 40) a synthetic source holding one file of 64 MiB +0 (rarely) /+1/+2/+32767/+32768/+32769/+65536/+100000/+1 MiB+5/+3 MiB+12345 bytes whose Read delivers data with io.EOF, EOF separately, at most 1000 bytes, or ragged pieces, copied into an in-memory filesystem.FileSystem and compared by SHA-256 (the streaming path of CopyFileSystem); the tree diff that defines 'equal' is computed by the harness on the models; non-trivial = >= 2 levels and a file > 32 KiB (and a mutation for compare), every bigcopy case; distinct by hash of the case JSON"})
}

func TestC16(t *testing.T) { hx.RunProp(t, "C16") }
