package props

// FAT part of C19 (timestamps and attribute flags); see c19_test.go.

func fatAttrOp(x *fatRun, op fsOp) {}
