package props

// FAT part of C19: timestamps (Chtimes) and attribute flags, observed through Stat, the
// attribute getters and the raw directory-entry words read by the independent FAT parser.

import (
	"fmt"
	"os"
	"strings"
	"time"

	"github.com/diskfs/go-diskfs/filesystem/fat12"

	"verifharness/indep"
	"verifharness/model"
)

type fatMeta struct {
	timesSet                          bool
	ct, at, mt                        int64
	hidden, system, readonly, archive bool
	flagsSet                          map[string]bool
}

var fatMetaStore = map[*model.Node]*fatMeta{}

func fatMetaOf(n *model.Node) *fatMeta {
	m := fatMetaStore[n]
	if m == nil {
		m = &fatMeta{flagsSet: map[string]bool{}}
		fatMetaStore[n] = m
	}
	return m
}

// rawEntries maps lower-cased paths to the raw entry the independent parser found.
func (x *fatRun) rawEntries() map[string]indep.FATEntry {
	rep := indep.CheckFAT(x.d, x.c.Cfg.Start, x.c.Cfg.Size, x.c.Cfg.Kind)
	out := map[string]indep.FATEntry{}
	for _, e := range rep.Entries {
		out[strings.ToLower(strings.TrimPrefix(e.Path, "/"))] = e
	}
	return out
}

func rawKey(e indep.FATEntry) string {
	return fmt.Sprintf("attr=%02x|crt=%04x/%04x|acc=%04x|wrt=%04x/%04x|size=%d|first=%d", e.Attr&0x27, e.CrtDate, e.CrtTime, e.AccDate, e.WrtDate, e.WrtTime, e.Size, e.First)
}

func fatAttrOp(x *fatRun, op fsOp) {
	n := x.m.Lookup(op.P)
	if n == nil {
		return
	}
	p := x.canon(op.P)
	before := x.rawEntries()
	switch op.K {
	case "chtimes":
		mt, at, ct := op.Off, int64(op.N)*86400, int64(op.Chunk)
		if ct < 315532800 {
			ct += 315532800
		}
		if at < 315532800 {
			at = 315532800
		}
		err, ok := x.call("Chtimes", func() error {
			return x.fs.Chtimes(fsPath(p), time.Unix(ct, 0).UTC(), time.Unix(at, 0).UTC(), time.Unix(mt, 0).UTC())
		})
		if !ok {
			return
		}
		if err != nil {
			x.r.Class("refused:chtimes")
			return
		}
		m := fatMetaOf(n)
		m.timesSet, m.ct, m.at, m.mt = true, ct, at, mt
		n.HasMeta = true
	case "attr":
		if n.Dir {
			return
		}
		on := op.N == 1
		err, ok := x.call("attribute setter", func() error {
			if op.Q == "archive" {
				type archiver interface{ SetArchiveBit(string, bool) error }
				a, ok := x.fs.(archiver)
				if !ok {
					return fmt.Errorf("filesystem has no SetArchiveBit")
				}
				return a.SetArchiveBit(fsPath(p), on)
			}
			f, err := x.fs.OpenFile(fsPath(p), os.O_RDWR)
			if err != nil {
				return err
			}
			defer f.Close()
			ff, ok := f.(*fat12.File)
			if !ok {
				return fmt.Errorf("handle is %T, not *fat12.File", f)
			}
			switch op.Q {
			case "hidden":
				return ff.SetHidden(on)
			case "system":
				return ff.SetSystem(on)
			default:
				return ff.SetReadOnly(on)
			}
		})
		if !ok {
			return
		}
		if err != nil {
			x.r.Class("refused:attr")
			return
		}
		m := fatMetaOf(n)
		switch op.Q {
		case "hidden":
			m.hidden = on
		case "system":
			m.system = on
		case "readonly":
			m.readonly = on
		case "archive":
			m.archive = on
		}
		m.flagsSet[op.Q] = true
		n.HasMeta = true
	}
	// frame condition on the raw directory entries
	after := x.rawEntries()
	tk := strings.ToLower(p)
	for k, b := range before {
		a, ok := after[k]
		if !ok {
			x.fail("frame-lost:"+op.K, "%s on %q: entry %q disappeared from the directory", op.K, p, k)
			return
		}
		if k != tk && rawKey(a) != rawKey(b) {
			x.fail("frame:"+op.K, "%s on %q changed another entry %q: %s -> %s", op.K, p, k, rawKey(b), rawKey(a))
			return
		}
		if k == tk {
			if a.Size != b.Size || a.First != b.First {
				x.fail("frame-self:"+op.K, "%s on %q changed its size/first cluster: %s -> %s", op.K, p, rawKey(b), rawKey(a))
				return
			}
			if op.K == "chtimes" && a.Attr&0x27 != b.Attr&0x27 {
				x.fail("frame-self:chtimes", "Chtimes on %q changed attribute bits %02x -> %02x", p, b.Attr, a.Attr)
				return
			}
			if op.K == "attr" && (a.CrtDate != b.CrtDate || a.CrtTime != b.CrtTime || a.WrtDate != b.WrtDate || a.WrtTime != b.WrtTime || a.AccDate != b.AccDate) {
				x.fail("frame-self:attr", "setting %s on %q changed its timestamps: %s -> %s", op.Q, p, rawKey(b), rawKey(a))
				return
			}
		}
	}
}

func fatDate(t int64) uint16 {
	u := time.Unix(t, 0).UTC()
	return uint16((u.Year()-1980)<<9 | int(u.Month())<<5 | u.Day())
}

func fatTime(t int64) uint16 {
	u := time.Unix(t, 0).UTC()
	return uint16(u.Hour()<<11 | u.Minute()<<5 | u.Second()/2)
}

// checkFATMeta compares everything that was set with what the re-opened image reports.
func (x *fatRun) checkFATMeta(label string) {
	if x.r.Failed() {
		return
	}
	raw := x.rawEntries()
	x.m.Walk(func(p string, n *model.Node) {
		if x.r.Failed() {
			return
		}
		m := fatMetaStore[n]
		e, ok := raw[strings.ToLower(p)]
		if !ok {
			return
		}
		if e.Dir != n.Dir {
			x.fail("meta-kind", "%s: %q raw entry dir=%v, model dir=%v", label, p, e.Dir, n.Dir)
			return
		}
		if m == nil {
			return
		}
		if m.timesSet {
			if e.WrtDate != fatDate(m.mt) || e.WrtTime != fatTime(m.mt) {
				x.fail("meta-mtime-raw", "%s: %q modification date/time words %04x/%04x, set %04x/%04x (%s)", label, p, e.WrtDate, e.WrtTime, fatDate(m.mt), fatTime(m.mt), time.Unix(m.mt, 0).UTC())
				return
			}
			if e.CrtDate != fatDate(m.ct) || e.CrtTime != fatTime(m.ct) {
				x.fail("meta-ctime-raw", "%s: %q creation date/time words %04x/%04x, set %04x/%04x", label, p, e.CrtDate, e.CrtTime, fatDate(m.ct), fatTime(m.ct))
				return
			}
			if e.AccDate != fatDate(m.at) {
				x.fail("meta-atime-raw", "%s: %q access date word %04x, set %04x", label, p, e.AccDate, fatDate(m.at))
				return
			}
			var fi os.FileInfo
			err, okc := x.call("Stat "+p, func() error {
				var err error
				fi, err = x.fs.Stat(p)
				return err
			})
			if !okc {
				return
			}
			if err == nil {
				want := time.Unix(m.mt-m.mt%2, 0).UTC()
				if !fi.ModTime().Equal(want) {
					x.fail("meta-mtime", "%s: Stat(%q).ModTime() = %v, set %v (2 s resolution)", label, p, fi.ModTime().UTC(), want)
					return
				}
			}
		}
		for flag := range m.flagsSet {
			var wantBit bool
			var mask byte
			switch flag {
			case "hidden":
				wantBit, mask = m.hidden, 0x02
			case "system":
				wantBit, mask = m.system, 0x04
			case "readonly":
				wantBit, mask = m.readonly, 0x01
			case "archive":
				wantBit, mask = m.archive, 0x20
			}
			if (e.Attr&mask != 0) != wantBit {
				x.fail("meta-flag-raw:"+flag, "%s: %q attribute byte %02x: %s should be %v", label, p, e.Attr, flag, wantBit)
				return
			}
		}
		if !n.Dir && len(m.flagsSet) > 0 {
			x.call("getters "+p, func() error {
				f, err := x.fs.OpenFile(fsPath(p), os.O_RDONLY)
				if err != nil {
					return nil
				}
				defer f.Close()
				ff, ok := f.(*fat12.File)
				if !ok {
					return nil
				}
				if m.flagsSet["hidden"] && ff.IsHidden() != m.hidden {
					x.fail("meta-getter:hidden", "%s: %q IsHidden()=%v, set %v", label, p, ff.IsHidden(), m.hidden)
				}
				if m.flagsSet["system"] && ff.IsSystem() != m.system {
					x.fail("meta-getter:system", "%s: %q IsSystem()=%v, set %v", label, p, ff.IsSystem(), m.system)
				}
				if m.flagsSet["readonly"] && ff.IsReadOnly() != m.readonly {
					x.fail("meta-getter:readonly", "%s: %q IsReadOnly()=%v, set %v", label, p, ff.IsReadOnly(), m.readonly)
				}
				return nil
			})
		}
	})
}
