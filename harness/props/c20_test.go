package props

// C20 — ext4 volumes made by the reference mke2fs are read correctly.

import (
	"bytes"
	"fmt"
	"io"
	iofs "io/fs"
	"os"
	"path/filepath"
	"sort"
	"strings"
	"testing"

	"github.com/diskfs/go-diskfs/backend/file"
	"github.com/diskfs/go-diskfs/filesystem/ext4"
	"pgregory.net/rapid"

	"verifharness/hx"
	"verifharness/indep"
	"verifharness/mk"
)

type sparseSeg struct {
	Off  int64  `json:"off"`
	Len  int    `json:"len"`
	Seed uint32 `json:"seed"`
}

type sparseFile struct {
	Path string      `json:"path"`
	Size int64       `json:"size"`
	Segs []sparseSeg `json:"segs"`
}

type xattrSpec struct {
	Path  string `json:"path"`
	Name  string `json:"name"`
	Value string `json:"value"`
}

type c20Case struct {
	SizeKiB int64        `json:"size_kib"`
	Args    []string     `json:"args"` // mke2fs arguments (without -d, image and size)
	Tree    []mk.Entry   `json:"tree"`
	Sparse  []sparseFile `json:"sparse,omitempty"`
	Xattrs  []xattrSpec  `json:"xattrs,omitempty"`
	HashDir bool         `json:"hashdir,omitempty"` // run e2fsck -fyD afterwards (re-hash directories)
	Frag    int          `json:"frag,omitempty"`    // rounds of debugfs write/rm to fragment free space
}

func genC20(t *rapid.T) any {
	c := c20Case{}
	c.SizeKiB = rapid.SampledFrom([]int64{16 << 10, 32 << 10, 64 << 10}).Draw(t, "size")
	bs := rapid.SampledFrom([]int{1024, 2048, 4096}).Draw(t, "bs")
	fstype := rapid.SampledFrom([]string{"ext4", "ext4", "ext4", "ext4", "ext4", "ext4", "ext3", "ext2"}).Draw(t, "fstype")
	c.Args = []string{"-t", fstype, "-b", fmt.Sprint(bs), "-I", rapid.SampledFrom([]string{"128", "256", "256"}).Draw(t, "isize"), "-E", "root_owner=0:0"}
	var feats []string
	if fstype == "ext4" {
		for _, f := range []string{"64bit", "flex_bg", "metadata_csum", "dir_index", "huge_file", "has_journal", "extent", "uninit_bg"} {
			n := 3
			if f == "metadata_csum" || f == "extent" {
				n = 9 // images without metadata_csum or extents are refused at open: keep them rare
			}
			if rapid.IntRange(0, n).Draw(t, "feat-"+f) == 0 {
				feats = append(feats, "^"+f)
			}
		}
		if rapid.IntRange(0, 5).Draw(t, "sparse2") == 0 {
			feats = append(feats, "sparse_super2")
		}
		if rapid.IntRange(0, 6).Draw(t, "inline") == 0 {
			feats = append(feats, "inline_data")
		}
		if rapid.IntRange(0, 8).Draw(t, "bigalloc") == 0 {
			feats = append(feats, "bigalloc")
		}
	}
	if len(feats) > 0 {
		c.Args = append(c.Args, "-O", strings.Join(feats, ","))
	}
	c.Tree = dedupeTree(genTree(t, treeOpts{maxEntries: 18, maxDepth: 5, unit: bs, names: "posix", symlinks: true, meta: true, bigDirs: true, maxFile: 6 * bs}))
	used := map[string]bool{}
	for i, e := range c.Tree {
		used[e.Path] = true
		if e.Mtime > 2147483647 {
			c.Tree[i].Mtime = 2147483647 // mke2fs -d stores 32-bit seconds only
		}
	}
	for i := 0; i < rapid.IntRange(0, 2).Draw(t, "nsparse"); i++ {
		sf := sparseFile{Path: fmt.Sprintf("sparse%d.bin", i)}
		if used[sf.Path] {
			continue
		}
		nseg := rapid.IntRange(1, 8).Draw(t, "nseg")
		off := int64(0)
		for j := 0; j < nseg; j++ {
			off += int64(rapid.SampledFrom([]int{0, bs, 3 * bs, 17 * bs, 64 * bs}).Draw(t, "hole"))
			ln := rapid.SampledFrom([]int{1, bs - 1, bs, bs + 1, 3 * bs}).Draw(t, "seglen")
			sf.Segs = append(sf.Segs, sparseSeg{Off: off, Len: ln, Seed: uint32(100*i + j + 1)})
			off += int64(ln)
		}
		sf.Size = off + int64(rapid.SampledFrom([]int{0, 1, bs, 9 * bs}).Draw(t, "tailhole"))
		c.Sparse = append(c.Sparse, sf)
	}
	var files []string
	for _, e := range c.Tree {
		// debugfs command lines cannot quote every byte: keep xattr targets to plain names
		if e.Kind == mk.KFile && !strings.ContainsAny(e.Path, "\" '\\\t") {
			files = append(files, e.Path)
		}
	}
	if len(files) > 0 {
		for i := 0; i < rapid.IntRange(0, 3).Draw(t, "nxattr"); i++ {
			c.Xattrs = append(c.Xattrs, xattrSpec{Path: rapid.SampledFrom(files).Draw(t, "xfile"), Name: "user." + rapid.StringMatching(`[a-z]{1,8}`).Draw(t, "xname"),
				Value: strings.Repeat("v", rapid.SampledFrom([]int{1, 10, 90, 300, 1500}).Draw(t, "xlen"))})
		}
	}
	c.HashDir = rapid.IntRange(0, 2).Draw(t, "hashdir") == 0
	c.Frag = rapid.SampledFrom([]int{0, 0, 3, 8}).Draw(t, "frag")
	if bs == 1024 && fstype == "ext4" && rapid.IntRange(0, 3).Draw(t, "deepHtree") == 0 {
		// a directory whose hash tree needs a second level: with 1 KiB blocks the root holds about 120 leaf
		// pointers, and e2fsck -fyD packs interior nodes completely full
		dn := "deep-hash-tree"
		if !used[dn] {
			c.Tree = append(c.Tree, mk.Entry{Path: dn, Kind: mk.KDir})
			nf := rapid.SampledFrom([]int{560, 640, 900}).Draw(t, "deepN")
			nl := rapid.SampledFrom([]int{150, 200, 230}).Draw(t, "deepNameLen")
			for i := 0; i < nf; i++ {
				c.Tree = append(c.Tree, mk.Entry{Path: fmt.Sprintf("%s/%05d-%s", dn, i, strings.Repeat("h", nl)), Kind: mk.KFile, Data: mk.Content{Seed: uint32(5000 + i), Len: i % 3}})
			}
			c.HashDir = true
			c.Frag = 0
			if c.SizeKiB < 32<<10 {
				c.SizeKiB = 32 << 10
			}
		}
	}
	return c
}

func (sf sparseFile) bytes() []byte {
	b := make([]byte, sf.Size)
	for _, s := range sf.Segs {
		copy(b[s.Off:], mk.Content{Seed: s.Seed, Len: s.Len}.Bytes())
	}
	return b
}

func execC20(ci any) (r hx.Result) {
	c := ci.(c20Case)
	dir, err := os.MkdirTemp("", "verif_c20")
	if err != nil {
		r.Discard = true
		return
	}
	defer os.RemoveAll(dir)
	src := filepath.Join(dir, "src")
	img := filepath.Join(dir, "img")
	if err := os.Mkdir(src, 0o755); err != nil {
		r.Discard = true
		return
	}
	if err := mk.Materialize(src, c.Tree); err != nil {
		r.Discard = true
		r.Note("materialize: %s", firstWords(err.Error(), 6))
		return
	}
	for _, sf := range c.Sparse {
		f, err := os.Create(filepath.Join(src, sf.Path))
		if err != nil {
			r.Discard = true
			return
		}
		for _, s := range sf.Segs {
			f.WriteAt(mk.Content{Seed: s.Seed, Len: s.Len}.Bytes(), s.Off)
		}
		f.Truncate(sf.Size)
		f.Close()
	}
	args := append(append([]string{}, c.Args...), "-d", src)
	if out, infra := indep.Mke2fs(img, c.SizeKiB, args...); infra != "" {
		r.Discard = true
		r.Class("mke2fs-refused")
		_ = out
		r.Note("mke2fs refused the option set")
		return
	}
	// xattrs via debugfs
	if len(c.Xattrs) > 0 {
		var script strings.Builder
		for _, x := range c.Xattrs {
			fmt.Fprintf(&script, "ea_set \"/%s\" %s %s\n", x.Path, x.Name, x.Value)
		}
		sp := filepath.Join(dir, "ea.cmd")
		os.WriteFile(sp, []byte(script.String()), 0o644)
		indep.DebugfsScript(img, sp)
	}
	if c.Frag > 0 {
		var script strings.Builder
		filler := filepath.Join(dir, "filler")
		os.WriteFile(filler, bytes.Repeat([]byte{0xEE}, 8192), 0o644)
		for i := 0; i < c.Frag*4; i++ {
			fmt.Fprintf(&script, "write %s /fill%03d\n", filler, i)
		}
		for i := 0; i < c.Frag*4; i += 2 {
			fmt.Fprintf(&script, "rm /fill%03d\n", i)
		}
		sp := filepath.Join(dir, "frag.cmd")
		os.WriteFile(sp, []byte(script.String()), 0o644)
		indep.DebugfsScript(img, sp)
	}
	if c.HashDir {
		indep.E2fsckFix(img)
	}
	// what does the reference reader say is in the image? (defines the expectation for files added by debugfs)
	b, err := file.OpenFromPath(img, true)
	if err != nil {
		r.Discard = true
		return
	}
	defer b.Close()
	st, _ := os.Stat(img)
	feats := strings.Join(c.Args, " ")
	r.Class("args:" + firstWords(feats, 4))
	var fsys *ext4.FileSystem
	fin := hx.WithTimeout(4*watchdog(), func() {
		if p, pv, stk := hx.Safe(func() { fsys, err = ext4.Read(b, st.Size(), 0, 512) }); p {
			r.Fail("open-panic:"+panicKind(pv), "ext4.Read on an image made by mke2fs %s panicked: %v [%s]", feats, pv, stk)
		}
	})
	if !fin {
		r.Fail("open-hang", "ext4.Read on an image made by mke2fs %s did not return", feats)
	}
	if r.Failed() {
		return
	}
	if err != nil {
		// refusing an image is always an acceptable outcome
		r.Class("refused-at-open")
		r.Note("refused at open: %s", firstWords(err.Error(), 9))
		r.Discard = true
		return
	}
	special := len(c.Sparse) > 0 || c.HashDir || c.Frag > 0 || len(c.Xattrs) > 0
	if special && len(c.Args) > 8 {
		r.Nontrivial = true
	}
	want := map[string]mk.Entry{}
	for _, e := range c.Tree {
		want[e.Path] = e
	}
	// per-node checks; an error on a node is acceptable ("affected file fails"), wrong data is not
	nodeErrs := 0
	check := func(what string, f func() error) (err error, ok bool) {
		fin := hx.WithTimeout(2*watchdog(), func() {
			if p, pv, stk := hx.Safe(func() { err = f() }); p {
				r.Fail("panic:"+panicKind(pv), "%s on an image made by mke2fs %s panicked: %v [%s]", what, feats, pv, stk)
			}
		})
		if !fin {
			r.Fail("hang", "%s on an image made by mke2fs %s did not return within %v", what, feats, 2*watchdog())
			return nil, false
		}
		return err, !r.Failed()
	}
	// listing of every directory
	dirs := []string{"."}
	for _, e := range c.Tree {
		if e.Kind == mk.KDir {
			dirs = append(dirs, e.Path)
		}
	}
	for _, d := range dirs {
		var ents []iofs.DirEntry
		err, ok := check("ReadDir "+d, func() error {
			var err error
			ents, err = fsys.ReadDir(d)
			return err
		})
		if !ok {
			return
		}
		if err != nil {
			nodeErrs++
			r.Note("a ReadDir returned an error (acceptable outcome)")
			continue
		}
		var got, exp []string
		for _, e := range ents {
			if d == "." && (e.Name() == "lost+found" || strings.HasPrefix(e.Name(), "fill")) {
				continue
			}
			got = append(got, e.Name())
		}
		for p := range want {
			pd := filepath.Dir(p)
			if pd == d {
				exp = append(exp, filepath.Base(p))
			}
		}
		if d == "." {
			for _, sf := range c.Sparse {
				exp = append(exp, sf.Path)
			}
		}
		sort.Strings(got)
		sort.Strings(exp)
		if strings.Join(got, "\x00") != strings.Join(exp, "\x00") {
			r.Fail("listing", "directory %q of an image made by mke2fs %s lists %s, mke2fs was given %s", clip(d), feats, shortList(got), shortList(exp))
			return
		}
	}
	refSize := map[string]int64{}
	for p, e := range want {
		switch e.Kind {
		case mk.KLink:
			var tgt string
			err, ok := check("ReadLink "+p, func() error {
				var err error
				tgt, err = fsys.ReadLink(p)
				return err
			})
			if !ok {
				return
			}
			if err != nil {
				nodeErrs++
				continue
			}
			if tgt != e.Target {
				r.Fail("symlink", "%q: link target %q (len %d), mke2fs was given %q (len %d) [%s]", clip(p), clip(tgt), len(tgt), clip(e.Target), len(e.Target), feats)
				return
			}
		case mk.KFile:
			var data []byte
			err, ok := check("ReadFile "+p, func() error {
				f, err := fsys.Open(p)
				if err != nil {
					return err
				}
				defer f.Close()
				data, err = io.ReadAll(io.LimitReader(f, int64(e.Data.Len)+1<<20))
				return err
			})
			if !ok {
				return
			}
			if err != nil {
				nodeErrs++
				r.Note("a file open/read returned an error (acceptable outcome)")
				continue
			}
			wd := e.Data.Bytes()
			if !bytes.Equal(data, wd) {
				// mke2fs -d turns zero blocks into holes and drops a trailing hole from the size; the reference
				// reader (debugfs) defines what the image holds
				dump := filepath.Join(dir, "fdump.bin")
				os.Remove(dump)
				indep.Debugfs(img, false, fmt.Sprintf("dump \"/%s\" %s", p, dump))
				if ref, derr := os.ReadFile(dump); derr == nil && !strings.ContainsAny(p, "\"") {
					if !bytes.Equal(ref, wd) {
						r.Note("mke2fs -d stored a file differently from the source (trailing zero blocks dropped)")
						refSize[p] = int64(len(ref))
					}
					wd = ref
				}
			}
			if !bytes.Equal(data, wd) {
				r.Fail("content", "%q (%d bytes): content differs from what mke2fs/debugfs hold (%s) [%s]", clip(p), e.Data.Len, diffAt(data, wd), feats)
				return
			}
		}
		if e.Kind != mk.KLink {
			var fi iofs.FileInfo
			err, ok := check("Stat "+p, func() error {
				var err error
				fi, err = fsys.Stat(p)
				return err
			})
			if !ok {
				return
			}
			if err != nil {
				nodeErrs++
				continue
			}
			if fi.IsDir() != (e.Kind == mk.KDir) {
				r.Fail("kind", "%q: IsDir=%v, source kind %d [%s]", clip(p), fi.IsDir(), e.Kind, feats)
				return
			}
			wantSize := int64(e.Data.Len)
			if rs, ok := refSize[p]; ok {
				wantSize = rs
			}
			if e.Kind == mk.KFile && fi.Size() != wantSize {
				r.Fail("size", "%q: size %d, reference %d [%s]", clip(p), fi.Size(), wantSize, feats)
				return
			}
			if e.Mode != 0 && modeBits(fi.Mode()) != e.Mode {
				r.Fail("mode", "%q: mode %04o, source %04o [%s]", clip(p), modeBits(fi.Mode()), e.Mode, feats)
				return
			}
			if st, _ := fi.Sys().(*ext4.StatT); st != nil && (e.UID != 0 || e.GID != 0) {
				if st.UID != uint32(e.UID) || st.GID != uint32(e.GID) {
					r.Fail("owner", "%q: uid/gid %d/%d, source %d/%d [%s]", clip(p), st.UID, st.GID, e.UID, e.GID, feats)
					return
				}
			}
			if e.Mtime != 0 && fi.ModTime().Unix() != e.Mtime {
				// 128-byte inodes hold 32-bit seconds only: values beyond 2038 cannot be stored by mke2fs itself
				if !(strings.Contains(feats, "-I 128") && e.Mtime > 2147483647) {
					r.Fail("mtime", "%q: mtime %d, source %d [%s]", clip(p), fi.ModTime().Unix(), e.Mtime, feats)
					return
				}
			}
		}
	}
	for _, sf := range c.Sparse {
		var data []byte
		err, ok := check("read sparse "+sf.Path, func() error {
			f, err := fsys.Open(sf.Path)
			if err != nil {
				return err
			}
			defer f.Close()
			data, err = io.ReadAll(io.LimitReader(f, sf.Size+1<<20))
			return err
		})
		if !ok {
			return
		}
		if err != nil {
			nodeErrs++
			r.Note("a sparse file read returned an error (acceptable outcome)")
			continue
		}
		// the reference reader defines what is in the image: mke2fs -d drops a trailing hole
		// (the inode size ends with the last data block), so ask debugfs rather than the source
		wd := sf.bytes()
		dump := filepath.Join(dir, "dump.bin")
		os.Remove(dump)
		indep.Debugfs(img, false, fmt.Sprintf("dump /%s %s", sf.Path, dump))
		if ref, derr := os.ReadFile(dump); derr == nil {
			if !bytes.Equal(ref, wd) {
				r.Note("mke2fs -d stored a sparse file differently from the source (trailing hole dropped)")
			}
			wd = ref
		}
		if !bytes.Equal(data, wd) {
			r.Fail("sparse-content", "sparse file %q (%d bytes, %d segments): content differs, holes must read as zeros (%s) [%s]", sf.Path, sf.Size, len(sf.Segs), diffAt(data, wd), feats)
			return
		}
		// the same file through a Read loop that reuses one buffer, as io.Copy does: what a hole delivers must be
		// zeros the handle wrote, not whatever the caller's buffer held before
		var loop []byte
		seekBack := ""
		err, ok = check("read sparse (reused buffer) "+sf.Path, func() error {
			f, err := fsys.Open(sf.Path)
			if err != nil {
				return err
			}
			defer f.Close()
			buf := make([]byte, 3000)
			for int64(len(loop)) <= sf.Size+1<<20 {
				for i := range buf {
					buf[i] = 0xAA
				}
				n, rerr := f.Read(buf)
				loop = append(loop, buf[:n]...)
				if rerr == io.EOF {
					// the same handle once more, backwards: whatever the handle remembers about where it was
					// must not leak into a read after Seek
					if sk, ok := f.(io.Seeker); ok {
						for _, off := range []int64{int64(len(loop)) / 2, 0} {
							if _, serr := sk.Seek(off, io.SeekStart); serr != nil {
								return fmt.Errorf("Seek(%d): %w", off, serr)
							}
							for i := range buf {
								buf[i] = 0xAA
							}
							m, rerr2 := io.ReadFull(f, buf)
							if rerr2 != nil && rerr2 != io.EOF && rerr2 != io.ErrUnexpectedEOF {
								return rerr2
							}
							end := off + int64(m)
							if end > int64(len(loop)) {
								end = int64(len(loop))
							}
							if !bytes.Equal(buf[:end-off], loop[off:end]) {
								seekBack = fmt.Sprintf("after reading to the end and Seek(%d), Read returns other bytes than the first pass (%s)", off, diffAt(buf[:end-off], loop[off:end]))
							}
						}
					}
					return nil
				}
				if rerr != nil {
					return rerr
				}
				if n == 0 {
					return fmt.Errorf("Read returned (0, nil)")
				}
			}
			return nil
		})
		if !ok {
			return
		}
		if err == nil && seekBack != "" && bytes.Equal(loop, wd) {
			r.Fail("sparse-content", "sparse file %q (%d bytes, %d segments): %s [%s]", sf.Path, sf.Size, len(sf.Segs), seekBack, feats)
			return
		}
		if err == nil && !bytes.Equal(loop, wd) {
			r.Fail("sparse-content", "sparse file %q (%d bytes, %d segments) read in 3000-byte pieces into a reused buffer: content differs, holes must read as zeros (%s) [%s]", sf.Path, sf.Size, len(sf.Segs), diffAt(loop, wd), feats)
			return
		}
	}
	for _, x := range c.Xattrs {
		var xs map[string][]byte
		err, ok := check("GetXattr "+x.Path, func() error {
			var err error
			xs, err = fsys.GetXattr(x.Path)
			return err
		})
		if !ok {
			return
		}
		if err != nil {
			nodeErrs++
			continue
		}
		// the last ea_set for a (path, name) wins
		last := x.Value
		for _, y := range c.Xattrs {
			if y.Path == x.Path && y.Name == x.Name {
				last = y.Value
			}
		}
		// the reference reader defines what is stored (ea_set may have refused a value that does not fit)
		eaOut := filepath.Join(dir, "ea.out")
		os.Remove(eaOut)
		indep.Debugfs(img, false, fmt.Sprintf("ea_get -f %s \"/%s\" %s", eaOut, x.Path, x.Name))
		ref, rerr := os.ReadFile(eaOut)
		if rerr != nil || (len(ref) == 0 && len(last) > 0) {
			r.Note("debugfs ea_set did not store an xattr of %d bytes", len(last))
			continue
		}
		last = string(ref)
		if got, ok := xs[x.Name]; !ok || string(got) != last {
			r.Fail("xattr", "%q: xattr %s = %q (present=%v), debugfs ea_set wrote %q [%s]", clip(x.Path), x.Name, clip(string(got)), ok, clip(last), feats)
			return
		}
	}
	if nodeErrs > 0 {
		r.Class("node-errors")
	}
	return
}

func init() {
	hx.Register(&hx.Spec{ID: "C20", Gen: genC20, Exec: execC20, New: func() any { return new(c20Case) }, Journal: true,
		Rule: "case = host tree (many entries per directory, boundary file sizes, short and long symlinks, modes/owners/mtimes) + sparse files with several holes + xattrs (debugfs ea_set, small and large) populated by mke2fs -d with generated options (block 1k/2k/4k, inode 128/256, ext2/ext3/ext4, ^64bit, ^flex_bg, ^metadata_csum, ^dir_index, ^huge_file, ^has_journal, ^extent, sparse_super2, inline_data, bigalloc), optional e2fsck -fyD re-hash and debugfs write/rm fragmentation; oracle = ext4.Read + listing/contents/Stat/ReadLink/GetXattr equal what was put in, refusal or per-node error acceptable, wrong data or a hang not; non-trivial = image with a sparse file, re-hashed directories, fragmentation or xattrs under a non-default feature set; distinct by hash of the case JSON"})
}

func TestC20(t *testing.T) { hx.RunProp(t, "C20") }
