package props

// C11 — Read-only access never modifies the image.

import (
	"bytes"
	"crypto/sha256"
	"fmt"
	"io"
	iofs "io/fs"
	"os"
	"path/filepath"
	"strings"
	"sync"
	"testing"
	"time"

	diskfs "github.com/diskfs/go-diskfs"
	"github.com/diskfs/go-diskfs/backend"
	"github.com/diskfs/go-diskfs/backend/file"
	"github.com/diskfs/go-diskfs/disk"
	"github.com/diskfs/go-diskfs/filesystem"
	"github.com/diskfs/go-diskfs/filesystem/ext4"
	"github.com/diskfs/go-diskfs/filesystem/fat12"
	"github.com/diskfs/go-diskfs/filesystem/iso9660"
	"github.com/diskfs/go-diskfs/filesystem/squashfs"
	"github.com/diskfs/go-diskfs/partition/gpt"
	"github.com/diskfs/go-diskfs/partition/mbr"
	"pgregory.net/rapid"

	"verifharness/dev"
	"verifharness/hx"
	"verifharness/indep"
	"verifharness/mk"
)

type c11Op struct {
	K    string `json:"k"`
	Part int    `json:"part,omitempty"`
	N    int    `json:"n,omitempty"`
}

type c11Case struct {
	Img   string  `json:"img"`   // gpt (fat32 + ext4 + fat16 partitions), mbr (fat32 + ext4), fat12, fat16, iso9660, squashfs
	Route string  `json:"route"` // writable-fails, file-new-ro, file-new-osfile-ro, open-ro, frompath-ro, rw-reads-only
	Ops   []c11Op `json:"ops"`
}

var c11Mut = []string{"partition", "writepart", "createfs", "mkdir-new", "create", "write", "trunc", "append", "rename", "remove", "setlabel", "chmod", "chown", "chtimes", "symlink", "attr", "mkdir-existing", "open-rw"}
var c11Read = []string{"gettable", "getfs", "readpart", "verify", "readdir", "readfile", "stat", "readlink", "label", "open-read", "read-missing"}

func genC11(t *rapid.T) any {
	c := c11Case{}
	c.Img = rapid.SampledFrom([]string{"gpt", "gpt", "gpt-badprimary", "gpt-fatmismatch", "mbr", "fat12", "fat16", "iso9660", "squashfs"}).Draw(t, "img")
	c.Route = rapid.SampledFrom([]string{"writable-fails", "file-new-ro", "file-new-osfile-ro", "open-ro", "frompath-ro", "rw-reads-only"}).Draw(t, "route")
	if (c.Img == "iso9660" || c.Img == "squashfs") && rapid.IntRange(0, 2).Draw(t, "sameObject") == 0 {
		// the filesystem object that was just finalized, not a re-opened one: it is read-only from then on
		c.Route = "finalized-object"
	}
	n := rapid.IntRange(3, 25).Draw(t, "nops")
	for i := 0; i < n; i++ {
		op := c11Op{Part: rapid.IntRange(1, 3).Draw(t, "part"), N: rapid.IntRange(0, 8).Draw(t, "variant")}
		if c.Route == "rw-reads-only" || rapid.IntRange(0, 2).Draw(t, "readOrMut") == 0 {
			op.K = rapid.SampledFrom(c11Read).Draw(t, "readOp")
		} else {
			op.K = rapid.SampledFrom(c11Mut).Draw(t, "mutOp")
		}
		if c.Route == "finalized-object" {
			// the disk under a freshly finalized filesystem is writable: only filesystem-level calls are in scope
			// (reading through the object that did the writing is not what the statement is about either: C06/C07
			// read finalized images through Read; the iso9660 object panics in ReadDir after Finalize, noted in DESIGN)
			isFSMut := false
			for _, k := range []string{"mkdir-new", "create", "write", "trunc", "append", "rename", "remove", "setlabel", "chmod", "chown", "chtimes", "symlink", "mkdir-existing", "open-rw"} {
				if op.K == k {
					isFSMut = true
				}
			}
			if !isFSMut {
				op.K = rapid.SampledFrom([]string{"mkdir-new", "create", "write", "remove", "rename", "mkdir-existing", "open-rw", "trunc", "append"}).Draw(t, "fsOp")
			}
		}
		c.Ops = append(c.Ops, op)
	}
	return c
}

type c11Image struct {
	bytes []byte
	size  int64
	parts map[int]string // partition number -> fs type; 0 = whole disk
	err   error
}

var (
	c11Mu     sync.Mutex
	c11Images = map[string]*c11Image{}
)

func c11Populate(fs filesystem.FileSystem, kind string) error {
	dir, f1, f2 := "/D", "/D/F.TXT", "/A.TXT"
	if kind == "ext4" {
		dir, f1, f2 = "d", "d/f.txt", "a.txt"
	}
	if err := fs.Mkdir(dir); err != nil {
		return err
	}
	for i, p := range []string{f1, f2} {
		f, err := fs.OpenFile(p, os.O_CREATE|os.O_RDWR)
		if err != nil {
			return err
		}
		if _, err := f.Write(mk.Content{Seed: uint32(i + 1), Len: 1500 + i*700, Style: 2}.Bytes()); err != nil {
			return err
		}
		f.Close()
	}
	if kind == "ext4" {
		if err := fs.Symlink("a.txt", "l"); err != nil {
			return err
		}
	}
	return nil
}

func c11Build(img string) *c11Image {
	c11Mu.Lock()
	defer c11Mu.Unlock()
	if im, ok := c11Images[img]; ok {
		return im
	}
	im := &c11Image{parts: map[int]string{}}
	c11Images[img] = im
	p, pv, _ := hx.Safe(func() {
		switch img {
		case "gpt", "mbr":
			im.size = 48 << 20
			d := dev.New(im.size)
			dk, err := diskfs.OpenBackend(d)
			if err != nil {
				im.err = err
				return
			}
			mb := int64(1 << 20)
			layout := []struct {
				start, size int64
				kind        string
			}{{1 * mb, 8 * mb, "fat32"}, {10 * mb, 20 * mb, "ext4"}, {31 * mb, 8 * mb, "fat16"}}
			if img == "gpt" {
				tb := &gpt.Table{LogicalSectorSize: 512, PhysicalSectorSize: 512, ProtectiveMBR: true}
				for i, l := range layout {
					tb.Partitions = append(tb.Partitions, &gpt.Partition{Index: i + 1, Start: uint64(l.start / 512), Size: uint64(l.size), Type: gpt.LinuxFilesystem, Name: l.kind})
				}
				im.err = dk.Partition(tb)
			} else {
				tb := &mbr.Table{LogicalSectorSize: 512, PhysicalSectorSize: 512}
				for i, l := range layout {
					tb.Partitions = append(tb.Partitions, &mbr.Partition{Index: i + 1, Type: mbr.Linux, Start: uint32(l.start / 512), Size: uint32(l.size / 512)})
				}
				im.err = dk.Partition(tb)
			}
			if im.err != nil {
				return
			}
			for i, l := range layout {
				fs, err := dk.CreateFilesystem(disk.FilesystemSpec{Partition: i + 1, FSType: fsTypes[l.kind], VolumeLabel: "LBL"})
				if err != nil {
					im.err = fmt.Errorf("create %s: %w", l.kind, err)
					return
				}
				if err := c11Populate(fs, l.kind); err != nil {
					im.err = fmt.Errorf("populate %s: %w", l.kind, err)
					return
				}
				im.parts[i+1] = l.kind
			}
			im.bytes = d.Bytes(0, im.size)
		case "fat12", "fat16":
			im.size = map[string]int64{"fat12": 2 << 20, "fat16": 8 << 20}[img]
			d := dev.New(im.size)
			fs, err := mk.CreateFAT(img, d, im.size, 0, 512, "LBL", true)
			if err != nil {
				im.err = err
				return
			}
			if err := c11Populate(fs, img); err != nil {
				im.err = err
				return
			}
			im.parts[0] = img
			im.bytes = d.Bytes(0, im.size)
		case "iso9660", "squashfs":
			im.size = 4 << 20
			d := dev.New(im.size)
			tree := []mk.Entry{{Path: "D", Kind: mk.KDir}, {Path: "D/F.TXT", Kind: mk.KFile, Data: mk.Content{Seed: 1, Len: 1500, Style: 2}}, {Path: "A.TXT", Kind: mk.KFile, Data: mk.Content{Seed: 2, Len: 2200, Style: 2}}}
			if img == "iso9660" {
				im.err = mk.BuildISO(d, im.size, 0, 2048, tree, mk.IsoOpts{RockRidge: true})
			} else {
				im.err = mk.BuildSquashfs(d, im.size, 0, 4096, tree, mk.SqOpts{Comp: "gzip", Level: 6})
			}
			im.parts[0] = img
			im.bytes = d.Bytes(0, im.size)
		}
	})
	if p {
		im.err = fmt.Errorf("panic building %s: %v", img, pv)
	}
	return im
}

type tinyReader struct{ n int }

func (t *tinyReader) Read(p []byte) (int, error) {
	if t.n <= 0 {
		return 0, io.EOF
	}
	c := len(p)
	if c > t.n {
		c = t.n
	}
	for i := 0; i < c; i++ {
		p[i] = 0x5A
	}
	t.n -= c
	return c, nil
}

func execC11(ci any) (r hx.Result) {
	c := ci.(c11Case)
	r.Class("img:" + c.Img)
	r.Class("route:" + c.Route)
	imgKey := c.Img
	if c.Img == "gpt-badprimary" || c.Img == "gpt-fatmismatch" {
		imgKey = "gpt"
	}
	im := c11Build(imgKey)
	if im.err == nil && c.Img == "gpt-fatmismatch" {
		// the second FAT copy of the FAT32 partition differs from the first in one entry (an update that was
		// interrupted between the two copies): whatever a reader makes of that, it must not write
		c11Mu.Lock()
		bad := c11Images[c.Img]
		if bad == nil {
			bad = &c11Image{bytes: append([]byte(nil), im.bytes...), size: im.size, parts: im.parts}
			pstart, psize := int64(1<<20), int64(8<<20)
			rep := indep.CheckFAT(dev.FromBytes(im.bytes[pstart:pstart+psize], psize), 0, psize, "fat32")
			if rep.FATSectors > 0 {
				off := pstart + (int64(rep.Reserved)+int64(rep.FATSectors))*int64(rep.BytesPerSector) + 4*9
				bad.bytes[off] ^= 0x55
			}
			c11Images[c.Img] = bad
		}
		c11Mu.Unlock()
		im = bad
	}
	if im.err == nil && c.Img == "gpt-badprimary" {
		// one damaged byte in the primary header (its CRC field): reading falls back to the backup copy,
		// and must still not write anything - repairing is the caller's decision
		c11Mu.Lock()
		bad := c11Images[c.Img]
		if bad == nil {
			bad = &c11Image{bytes: append([]byte(nil), im.bytes...), size: im.size, parts: im.parts}
			bad.bytes[512+16] ^= 0xFF
			c11Images[c.Img] = bad
		}
		c11Mu.Unlock()
		im = bad
	}
	if im.err != nil {
		r.Discard = true
		r.Note("image build failed: %s", firstWords(im.err.Error(), 10))
		return
	}
	var d *dev.Device
	var b backend.Storage
	var path string
	var dk *disk.Disk
	var err error
	lssOpt := []diskfs.OpenOpt{}
	if c.Img == "squashfs" {
		lssOpt = append(lssOpt, diskfs.WithSectorSize(diskfs.SectorSize4k))
	}
	var finalizedFS filesystem.FileSystem
	switch c.Route {
	case "finalized-object":
		d = dev.New(im.size)
		b = d
		tree := []mk.Entry{{Path: "D", Kind: mk.KDir}, {Path: "D/F.TXT", Kind: mk.KFile, Data: mk.Content{Seed: 1, Len: 1500, Style: 2}}, {Path: "A.TXT", Kind: mk.KFile, Data: mk.Content{Seed: 2, Len: 2200, Style: 2}}}
		if p, pv, _ := hx.Safe(func() {
			if c.Img == "iso9660" {
				ws, werr := os.MkdirTemp("", "verif_c11_ws")
				if werr != nil {
					err = werr
					return
				}
				defer os.RemoveAll(ws)
				var fsi *iso9660.FileSystem
				if fsi, err = iso9660.Create(d, im.size, 0, 2048, ws); err != nil {
					return
				}
				if err = mk.Materialize(ws, tree); err != nil {
					return
				}
				err = fsi.Finalize(mk.IsoOpts{RockRidge: true}.Options())
				finalizedFS = fsi
			} else {
				var fsq *squashfs.FileSystem
				if fsq, err = squashfs.Create(d, im.size, 0, 4096); err != nil {
					return
				}
				if err = mk.Materialize(fsq.Workspace(), tree); err != nil {
					return
				}
				err = fsq.Finalize(mk.SqOpts{Comp: "gzip", Level: 6}.Options())
				finalizedFS = fsq
			}
		}); p {
			err = fmt.Errorf("panic: %v", pv)
		}
		if err == nil {
			d.ResetLog()
			dk, err = diskfs.OpenBackend(b, lssOpt...)
		}
	case "writable-fails", "rw-reads-only":
		d = dev.FromBytes(im.bytes, im.size)
		if c.Route == "writable-fails" {
			d.Mode = dev.ROWritable
		}
		b = d
		dk, err = diskfs.OpenBackend(b, lssOpt...)
	case "file-new-ro":
		d = dev.FromBytes(im.bytes, im.size) // the device itself stays writable: a write that gets through is seen
		b = file.New(d, true)
		dk, err = diskfs.OpenBackend(b, lssOpt...)
	case "open-ro", "frompath-ro", "file-new-osfile-ro":
		dir, terr := os.MkdirTemp("", "verif_c11")
		if terr != nil {
			r.Discard = true
			return
		}
		defer os.RemoveAll(dir)
		path = filepath.Join(dir, "disk.img")
		if werr := os.WriteFile(path, im.bytes, 0o644); werr != nil {
			r.Discard = true
			return
		}
		if c.Route == "open-ro" {
			opts := append([]diskfs.OpenOpt{diskfs.WithOpenMode(diskfs.ReadOnly)}, lssOpt...)
			dk, err = diskfs.Open(path, opts...)
		} else if c.Route == "file-new-osfile-ro" {
			// the caller's handle is writable; the read-only promise rests on file.New alone
			var fh *os.File
			fh, err = os.OpenFile(path, os.O_RDWR, 0)
			if err == nil {
				b = file.New(fh, true)
				dk, err = diskfs.OpenBackend(b, lssOpt...)
			}
		} else {
			b, err = file.OpenFromPath(path, true)
			if err == nil {
				dk, err = diskfs.OpenBackend(b, lssOpt...)
			}
		}
	}
	if err != nil {
		r.Discard = true
		r.Note("read-only open failed: %s", firstWords(err.Error(), 8))
		return
	}
	defer func() {
		if path != "" && dk != nil && dk.Backend != nil {
			dk.Backend.Close()
		}
	}()
	before := sha256.Sum256(im.bytes)
	readOnly := c.Route != "rw-reads-only"
	changed := func(where string) bool {
		if d != nil {
			if d.NWrites() > 0 {
				w := d.Writes()[0]
				r.Fail("write-reached-device", "%s: a WriteAt(off=%d,len=%d) reached the device although %s", where, w.Off, w.Len, map[bool]string{true: "it was opened read-only", false: "only reading calls were made"}[readOnly])
				return true
			}
			if d.ROWrites() > 0 {
				r.Fail("write-attempted", "%s: the library called WriteAt on a backend whose Writable() had failed", where)
				return true
			}
			return false
		}
		cur, rerr := os.ReadFile(path)
		if rerr != nil || sha256.Sum256(cur) != before {
			r.Fail("image-changed", "%s: the image file changed (read err %v)", where, rerr)
			return true
		}
		return false
	}
	// filesystems are obtained through the reading path
	fss := map[int]filesystem.FileSystem{}
	if finalizedFS != nil {
		fss[0] = finalizedFS
	}
	getFS := func(part int) (filesystem.FileSystem, string) {
		pn := part
		if len(im.parts) == 1 {
			pn = 0
		} else if _, ok := im.parts[pn]; !ok {
			pn = 1
		}
		kind := im.parts[pn]
		if fs, ok := fss[pn]; ok {
			return fs, kind
		}
		var fs filesystem.FileSystem
		var gerr error
		if p, pv, st := hx.Safe(func() { fs, gerr = dk.GetFilesystem(pn) }); p {
			r.Fail("getfs-panic", "GetFilesystem(%d) panicked: %v [%s]", pn, pv, st)
			return nil, kind
		}
		if gerr != nil {
			r.Note("GetFilesystem(%s) fails read-only: %s", kind, firstWords(gerr.Error(), 8))
			return nil, kind
		}
		fss[pn] = fs
		return fs, kind
	}
	muts, reads := map[string]bool{}, 0
	for i, op := range c.Ops {
		r.Steps++
		where := fmt.Sprintf("op %d (%s, part %d)", i, op.K, op.Part)
		var oerr error
		mustErr := false
		ran := true
		isRead := false
		for _, k := range c11Read {
			if k == op.K {
				isRead = true
			}
		}
		if !isRead && !readOnly {
			continue
		}
		call := func(f func() error) {
			fin := hx.WithTimeout(watchdog(), func() {
				if p, pv, st := hx.Safe(func() { oerr = f() }); p {
					r.Fail("panic:"+op.K, "%s panicked: %v [%s]", where, pv, st)
				}
			})
			if !fin {
				r.Fail("hang:"+op.K, "%s did not return", where)
			}
		}
		finalized := c.Img == "iso9660" || c.Img == "squashfs"
		switch op.K {
		case "partition":
			mustErr = true
			call(func() error {
				return dk.Partition(&mbr.Table{LogicalSectorSize: 512, PhysicalSectorSize: 512, Partitions: []*mbr.Partition{{Index: 1, Type: mbr.Linux, Start: 2048, Size: 2048}}})
			})
		case "writepart":
			mustErr = true
			call(func() error { _, e := dk.WritePartitionContents(op.Part, &tinyReader{n: 4096}); return e })
		case "createfs":
			mustErr = true
			call(func() error {
				pn := op.Part
				if len(im.parts) == 1 {
					pn = 0
				}
				_, e := dk.CreateFilesystem(disk.FilesystemSpec{Partition: pn, FSType: filesystem.TypeFat32})
				return e
			})
		case "gettable":
			call(func() error { _, e := dk.GetPartitionTable(); _ = e; return nil })
		case "readpart":
			call(func() error {
				if dk.Table == nil {
					return nil
				}
				_, e := dk.ReadPartitionContents(1, io.Discard)
				_ = e
				return nil
			})
		case "verify":
			call(func() error {
				if dk.Table != nil {
					_ = dk.Table.Verify(dk.Backend, uint64(im.size))
				}
				return nil
			})
		case "getfs":
			delete(fss, op.Part)
			getFS(op.Part)
		default:
			fs, kind := getFS(op.Part)
			if r.Failed() {
				return
			}
			if fs == nil {
				ran = false
				break
			}
			isE4 := kind == "ext4"
			dir, f1, f2, nw := "/D", "/D/F.TXT", "/A.TXT", "/NEW.TXT"
			rd := "D"
			if isE4 || kind == "squashfs" {
				dir, f1, f2, nw = "d", "d/f.txt", "a.txt", "new.txt"
				rd = "d"
			}
			if kind == "squashfs" {
				dir, f1, f2, rd = "D", "D/F.TXT", "A.TXT", "D"
			}
			switch op.K {
			case "mkdir-new":
				mustErr = true
				call(func() error { return fs.Mkdir(nw + "DIR") })
			case "mkdir-existing":
				mustErr = finalized
				call(func() error { return fs.Mkdir(dir) })
			case "create":
				mustErr = true
				call(func() error {
					f, e := fs.OpenFile(nw, os.O_CREATE|os.O_RDWR)
					if e == nil && f != nil {
						f.Close()
					}
					return e
				})
			case "open-rw":
				mustErr = finalized
				// every way of asking for a handle that could change the file: on a finalized filesystem each one
				// is an "OpenFile for write/create/append/truncate" and has to be refused, whatever the combination
				flags := []int{os.O_RDWR, os.O_WRONLY, os.O_APPEND, os.O_RDWR | os.O_APPEND, os.O_WRONLY | os.O_APPEND}
				if finalized {
					flags = append(flags, os.O_TRUNC, os.O_CREATE, os.O_RDWR|os.O_CREATE|os.O_EXCL, os.O_WRONLY|os.O_TRUNC)
				}
				flag := flags[op.N%len(flags)]
				if !finalized {
					flag = flags[op.N%2*3] // O_RDWR or O_RDWR|O_APPEND: opening without changing anything may succeed
				}
				call(func() error {
					f, e := fs.OpenFile(f2, flag)
					if e == nil && f != nil {
						f.Close()
					}
					return e
				})
			case "write", "append":
				mustErr = true
				call(func() error {
					flag := os.O_RDWR
					if op.K == "append" {
						flag |= os.O_APPEND
					}
					f, e := fs.OpenFile(f1, flag)
					if e != nil {
						return e
					}
					defer f.Close()
					_, e = f.Write([]byte("modified!"))
					return e
				})
			case "trunc":
				if isE4 && hx.Active("KF-E4-OTRUNC") {
					hx.Excluded("C11", "KF-E4-OTRUNC")
					ran = false
					break
				}
				mustErr = true
				call(func() error {
					f, e := fs.OpenFile(f2, os.O_RDWR|os.O_TRUNC)
					if e == nil && f != nil {
						f.Close()
					}
					return e
				})
			case "rename":
				mustErr = !isE4 || finalized // ext4 Rename is not implemented: it errors anyway
				mustErr = true
				call(func() error { return fs.Rename(f2, nw) })
			case "remove":
				mustErr = true
				call(func() error { return fs.Remove(f2) })
			case "setlabel":
				mustErr = true
				call(func() error { return fs.SetLabel("CHANGED") })
			case "chmod":
				mustErr = true
				call(func() error { return fs.Chmod(trimSlash(f2, kind), 0o600) })
			case "chown":
				mustErr = true
				call(func() error { return fs.Chown(trimSlash(f2, kind), 12, 34) })
			case "chtimes":
				mustErr = true
				call(func() error {
					t := time.Unix(1000000000, 0)
					return fs.Chtimes(f2, t, t, t)
				})
			case "symlink":
				mustErr = true
				call(func() error { return fs.Symlink("a.txt", trimSlash(nw, kind)+".lnk") })
			case "attr":
				if kind != "fat12" && kind != "fat16" && kind != "fat32" {
					ran = false
					break
				}
				mustErr = true
				call(func() error {
					f, e := fs.OpenFile(f2, os.O_RDONLY)
					if e != nil {
						return nil // cannot even open: nothing attempted
					}
					defer f.Close()
					ff, ok := f.(*fat12.File)
					if !ok {
						return fmt.Errorf("not a FAT file handle")
					}
					switch op.N {
					case 0:
						return ff.SetHidden(true)
					case 1:
						return ff.SetSystem(true)
					default:
						return ff.SetReadOnly(true)
					}
				})
			case "readdir":
				call(func() error { _, e := fs.ReadDir(rd); _ = e; return nil })
			case "readfile":
				call(func() error {
					b, e := fs.ReadFile(trimSlash(f1, kind))
					if e == nil && !bytes.Equal(b, mk.Content{Seed: 1, Len: 1500, Style: 2}.Bytes()) {
						return fmt.Errorf("read-only ReadFile returns wrong content")
					}
					return nil
				})
			case "stat":
				call(func() error { _, e := iofs.Stat(fs, trimSlash(f2, kind)); _ = e; return nil })
			case "readlink":
				if e4, ok := fs.(*ext4.FileSystem); ok {
					call(func() error { _, e := e4.ReadLink("l"); _ = e; return nil })
				}
			case "label":
				call(func() error { _ = fs.Label(); return nil })
			case "read-missing":
				// reading calls on names that do not exist - in an existing directory, under a missing
				// parent, two levels down - must report that and leave the image alone
				miss := []string{"/NOFILE.TXT", "/NODIR/X.TXT", "/D/NOSUB/DEEP/Y.TXT", "/NODIR"}[op.N%4]
				missOpen := miss
				if kind == "ext4" {
					miss = strings.ToLower(miss)
					missOpen = trimSlash(miss, kind)
				}
				call(func() error {
					_, _ = fs.ReadFile(trimSlash(miss, kind))
					if f, e := fs.OpenFile(missOpen, os.O_RDONLY); e == nil {
						f.Close()
					}
					_, _ = iofs.Stat(fs, trimSlash(miss, kind))
					_, _ = fs.ReadDir(trimSlash(miss, kind))
					// attribute getters are reading calls too
					if g, ok := fs.(interface {
						GetArchiveBit(string) (bool, error)
					}); ok {
						_, _ = g.GetArchiveBit(miss)
						_, _ = g.GetArchiveBit(f2)
					}
					return nil
				})
			case "open-read":
				call(func() error {
					f, e := fs.OpenFile(f2, os.O_RDONLY)
					if e == nil {
						io.Copy(io.Discard, f)
						f.Close()
					}
					return nil
				})
			}
		}
		if r.Failed() {
			return
		}
		if !ran {
			continue
		}
		if isRead {
			reads++
		} else if reads > 0 {
			muts[op.K] = true
		}
		if changed(where) {
			return
		}
		if readOnly && mustErr && oerr == nil {
			r.Fail("mutation-accepted:"+op.K, "%s on a read-only %s (%s) returned nil: a call that has to change the image to succeed must fail", where, c.Img, c.Route)
			return
		}
	}
	if len(muts) >= 3 || (c.Route == "rw-reads-only" && reads >= 3) {
		r.Nontrivial = true
	}
	return
}

func trimSlash(p, kind string) string {
	if len(p) > 0 && p[0] == '/' {
		return p[1:]
	}
	return p
}

func init() {
	hx.Register(&hx.Spec{ID: "C11", Gen: genC11, Exec: execC11, New: func() any { return new(c11Case) },
		Rule: "case = image (GPT or MBR disk with fat32/ext4/fat16 partitions, whole-disk fat12/fat16, finalized iso9660/squashfs) x read-only route (backend whose Writable() fails, file.New(readOnly) over a device and over a read-write *os.File, diskfs.Open(ReadOnly) on a real file, OpenFromPath(readOnly)) or a writable device used for reads only, x interleaved sequence of mutating and reading entry points; oracle = no WriteAt reaches the device / file hash unchanged after every step, and every call that must change the image returns an error; non-trivial = >= 3 distinct mutating entry points attempted after a read (or >= 3 reads in the reads-only family); distinct by hash of the case JSON"})
}

func TestC11(t *testing.T) { hx.RunProp(t, "C11") }
