package props

// Partition-table specifications and generators shared by C02, C03, C09, C13, C14, C15.

import (
	"fmt"
	"sort"
	"strings"
	"unicode/utf16"

	"github.com/diskfs/go-diskfs/partition/gpt"
	"github.com/diskfs/go-diskfs/partition/mbr"
	"pgregory.net/rapid"
)

type gptPart struct {
	Index int    `json:"i"`
	Start uint64 `json:"s"`
	End   uint64 `json:"e,omitempty"`
	Size  uint64 `json:"sz,omitempty"` // bytes
	Type  string `json:"t"`
	Name  string `json:"n,omitempty"`
	GUID  string `json:"g,omitempty"`
	Attrs uint64 `json:"a,omitempty"`
}

type gptSpec struct {
	LSS     int       `json:"lss"`
	PSS     int       `json:"pss,omitempty"` // physical sector size when it differs from the logical one (512e, 4Kn-over-512)
	Sectors uint64    `json:"sectors"`
	Slack   int       `json:"slack,omitempty"` // extra bytes after the last whole sector
	GUID    string    `json:"guid,omitempty"`
	PMBR    bool      `json:"pmbr"`
	Parts   []gptPart `json:"parts"`
}

type mbrPart struct {
	Boot  bool   `json:"b,omitempty"`
	Type  byte   `json:"t"`
	Start uint32 `json:"s"`
	Size  uint32 `json:"n"`
}

type mbrSpec struct {
	LSS     int       `json:"lss"`
	Sectors uint64    `json:"sectors"`
	Parts   []mbrPart `json:"parts"`
}

type tableSpec struct {
	G *gptSpec `json:"gpt,omitempty"`
	M *mbrSpec `json:"mbr,omitempty"`
}

func (s tableSpec) kind() string {
	if s.G != nil {
		return "gpt"
	}
	return "mbr"
}

func (s tableSpec) diskSize() int64 {
	if s.G != nil {
		return int64(s.G.Sectors)*int64(s.G.LSS) + int64(s.G.Slack)
	}
	return int64(s.M.Sectors) * int64(s.M.LSS)
}

func (s tableSpec) lss() int {
	if s.G != nil {
		return s.G.LSS
	}
	return s.M.LSS
}

// pss is the physical sector size handed to the library (defaults to the logical one).
func (g *gptSpec) pss() int {
	if g.PSS != 0 {
		return g.PSS
	}
	return g.LSS
}

func (g *gptSpec) table() *gpt.Table {
	t := &gpt.Table{LogicalSectorSize: g.LSS, PhysicalSectorSize: g.pss(), GUID: g.GUID, ProtectiveMBR: g.PMBR}
	for _, p := range g.Parts {
		t.Partitions = append(t.Partitions, &gpt.Partition{Index: p.Index, Start: p.Start, End: p.End, Size: p.Size, Type: gpt.Type(p.Type), Name: p.Name, GUID: p.GUID, Attributes: p.Attrs})
	}
	return t
}

func (m *mbrSpec) table() *mbr.Table {
	t := &mbr.Table{LogicalSectorSize: m.LSS, PhysicalSectorSize: m.LSS}
	for i, p := range m.Parts {
		t.Partitions = append(t.Partitions, &mbr.Partition{Index: i + 1, Bootable: p.Boot, Type: mbr.Type(p.Type), Start: p.Start, Size: p.Size})
	}
	return t
}

// expected normalised values of a GPT part as an independent computation
func (p gptPart) firstLast(lss int) (uint64, uint64) {
	if p.End != 0 {
		return p.Start, p.End
	}
	return p.Start, p.Start + p.Size/uint64(lss) - 1
}

var knownGPTTypes = []string{
	"C12A7328-F81F-11D2-BA4B-00A0C93EC93B", "0FC63DAF-8483-4772-8E79-3D69D8477DE4", "EBD0A0A2-B9E5-4433-87C0-68B6B72699C7",
	"21686148-6449-6E6F-744E-656564454649", "0657FD6D-A4AB-43C4-84E5-0933C84B4F4F", "E6D6D379-F507-44C2-A23C-238F2A3DF928",
}

func genGUID(t *rapid.T, label string) string {
	b := rapid.SliceOfN(rapid.Byte(), 16, 16).Draw(t, label)
	allZero := true
	for _, x := range b {
		if x != 0 {
			allZero = false
		}
	}
	if allZero {
		b[15] = 1
	}
	return strings.ToUpper(fmt.Sprintf("%x-%x-%x-%x-%x", b[0:4], b[4:6], b[6:8], b[8:10], b[10:16]))
}

// genGPTName draws a name of 0..36 UTF-16 code units, no NUL, valid Unicode.
func genGPTName(t *rapid.T) string {
	switch rapid.IntRange(0, 5).Draw(t, "nameMode") {
	case 0:
		return ""
	case 1:
		return rapid.StringMatching(`[A-Za-z0-9 _.-]{1,36}`).Draw(t, "nameAscii")
	case 2:
		return rapid.StringMatching(`[A-Za-z]{36}`).Draw(t, "name36")
	}
	runes := rapid.SliceOfN(rapid.OneOf(
		rapid.Int32Range(0x20, 0x7e),
		rapid.Int32Range(0xa1, 0x24ff),
		rapid.Int32Range(0x4e00, 0x4fff),
		rapid.Int32Range(0xe000, 0xf8ff),
		rapid.Int32Range(0x1f300, 0x1f6ff), // non-BMP: 2 units each
		rapid.Int32Range(0x10000, 0x10fff),
	), 1, 36).Draw(t, "nameRunes")
	var out []rune
	units := 0
	for _, r := range runes {
		n := len(utf16.Encode([]rune{rune(r)}))
		if units+n > 36 {
			break
		}
		units += n
		out = append(out, rune(r))
	}
	return string(out)
}

func utf16Len(s string) int { return len(utf16.Encode([]rune(s))) }

func gptArraySectors(lss int) uint64 { return uint64(128 * 128 / lss) }

// genGPTSpec draws a GPT table specification. hugeOK allows > 2^32 sector disks.
func genGPTSpec(t *rapid.T, hugeOK bool) *gptSpec {
	g := &gptSpec{}
	g.LSS = rapid.SampledFrom([]int{512, 512, 4096}).Draw(t, "lss")
	if rapid.IntRange(0, 3).Draw(t, "pssMode") == 0 {
		g.PSS = 4096 + 512 - g.LSS // the other one of the two sizes
	}
	as := gptArraySectors(g.LSS)
	minSectors := 2 + as + as + 1 + 1 // room for one usable sector
	mode := rapid.IntRange(0, 9).Draw(t, "diskMode")
	switch {
	case mode == 0:
		g.Sectors = minSectors + uint64(rapid.IntRange(0, 4).Draw(t, "minPlus"))
	case mode <= 4:
		g.Sectors = uint64(rapid.IntRange(int(minSectors)+4, 20000).Draw(t, "smallDisk"))
	case mode <= 7:
		g.Sectors = uint64(rapid.Int64Range(1<<20, 1<<24).Draw(t, "mediumDisk"))
	default:
		if hugeOK {
			g.Sectors = rapid.SampledFrom([]uint64{1<<32 - 1, 1 << 32, 1<<32 + 1, 3 << 31, 1<<33 + 12345, 1 << 31}).Draw(t, "hugeDisk")
		} else {
			g.Sectors = uint64(rapid.Int64Range(20000, 1<<20).Draw(t, "medium2"))
		}
	}
	if rapid.IntRange(0, 5).Draw(t, "slackMode") == 0 {
		g.Slack = rapid.IntRange(1, g.LSS-1).Draw(t, "slack")
	}
	genGPTParts(t, g)
	return g
}

// genGPTParts fills identity and partitions for a spec whose geometry is set.
func genGPTParts(t *rapid.T, g *gptSpec) {
	as := gptArraySectors(g.LSS)
	if rapid.Bool().Draw(t, "guidGiven") {
		g.GUID = genGUID(t, "diskGUID")
	}
	g.PMBR = rapid.IntRange(0, 3).Draw(t, "pmbr") != 0
	first := 2 + as
	last := g.Sectors - 1 - as - 1
	n := 0
	switch rapid.IntRange(0, 9).Draw(t, "countMode") {
	case 0:
		n = 0
	case 1, 2, 3, 4, 5:
		n = rapid.IntRange(1, 5).Draw(t, "countSmall")
	case 6, 7:
		n = rapid.IntRange(6, 40).Draw(t, "countMid")
	case 8:
		n = rapid.IntRange(100, 128).Draw(t, "countBig")
	case 9:
		n = 128
	}
	usable := last - first + 1
	if uint64(n) > usable {
		n = int(usable)
	}
	// distinct indices, sparse and unordered
	idx := rapid.Permutation(seq(1, 128)).Draw(t, "indices")[:n]
	if rapid.IntRange(0, 2).Draw(t, "ordered") == 0 {
		sort.Ints(idx)
	}
	// sequential non-overlapping ranges inside the usable area
	cur := first
	for i := 0; i < n; i++ {
		remainingParts := uint64(n - i)
		room := last - cur + 1
		maxLen := room - (remainingParts - 1)
		var ln uint64 = 1
		if maxLen > 1 {
			switch rapid.IntRange(0, 3).Draw(t, "lenMode") {
			case 0:
				ln = 1
			case 1:
				ln = uint64(rapid.Int64Range(1, int64(minU64(maxLen, 64))).Draw(t, "lenS"))
			default:
				ln = uint64(rapid.Int64Range(1, int64(minU64(maxLen, 1<<40))).Draw(t, "lenL"))
				if remainingParts > 1 && ln > maxLen/remainingParts {
					ln = maxLen/remainingParts + 1
					if ln > maxLen {
						ln = maxLen
					}
				}
			}
		}
		gap := uint64(0)
		if maxLen > ln && rapid.Bool().Draw(t, "gap") {
			gap = uint64(rapid.Int64Range(0, int64(minU64(maxLen-ln, 2048))).Draw(t, "gapN"))
		}
		start := cur + gap
		end := start + ln - 1
		p := gptPart{Index: idx[i], Start: start}
		switch rapid.IntRange(0, 2).Draw(t, "spelling") {
		case 0:
			p.End = end
		case 1:
			p.Size = ln * uint64(g.LSS)
		case 2:
			p.End = end
			p.Size = ln * uint64(g.LSS)
		}
		if rapid.IntRange(0, 2).Draw(t, "typeMode") == 0 {
			p.Type = genGUID(t, "typeGUID")
		} else {
			p.Type = rapid.SampledFrom(knownGPTTypes).Draw(t, "typeKnown")
		}
		p.Name = genGPTName(t)
		if rapid.IntRange(0, 2).Draw(t, "pguid") != 0 {
			p.GUID = genGUID(t, "partGUID")
		}
		switch rapid.IntRange(0, 3).Draw(t, "attrMode") {
		case 1:
			p.Attrs = 1 << uint(rapid.IntRange(0, 63).Draw(t, "attrBit"))
		case 2:
			p.Attrs = rapid.Uint64().Draw(t, "attrs")
		}
		g.Parts = append(g.Parts, p)
		cur = end + 1
	}
}

func minU64(a, b uint64) uint64 {
	if a < b {
		return a
	}
	return b
}

func seq(lo, hi int) []int {
	s := make([]int, 0, hi-lo+1)
	for i := lo; i <= hi; i++ {
		s = append(s, i)
	}
	return s
}

func genMBRSpec(t *rapid.T, hugeOK bool) *mbrSpec {
	m := &mbrSpec{LSS: 512}
	if rapid.IntRange(0, 4).Draw(t, "mbrLss") == 0 {
		m.LSS = 4096
	}
	switch rapid.IntRange(0, 4).Draw(t, "diskMode") {
	case 0:
		m.Sectors = uint64(rapid.IntRange(1, 64).Draw(t, "tiny"))
	case 1, 2:
		m.Sectors = uint64(rapid.IntRange(64, 100000).Draw(t, "small"))
	case 3:
		m.Sectors = uint64(rapid.Int64Range(1<<20, 1<<30).Draw(t, "medium"))
	default:
		if hugeOK {
			m.Sectors = rapid.SampledFrom([]uint64{1<<32 - 1, 1 << 32, 1<<32 + 5, 1 << 31}).Draw(t, "huge")
		} else {
			m.Sectors = uint64(rapid.Int64Range(1<<16, 1<<22).Draw(t, "medium2"))
		}
	}
	n := rapid.IntRange(0, 4).Draw(t, "count")
	for i := 0; i < n; i++ {
		p := mbrPart{Boot: rapid.IntRange(0, 3).Draw(t, "boot") == 0, Type: rapid.Byte().Draw(t, "type")}
		switch rapid.IntRange(0, 3).Draw(t, "geo") {
		case 0:
			p.Start = rapid.Uint32().Draw(t, "startAny")
			p.Size = rapid.Uint32().Draw(t, "sizeAny")
		case 1:
			p.Start = rapid.SampledFrom([]uint32{1, 63, 2048, 1<<32 - 1, 1 << 31, 1<<23 + 1}).Draw(t, "startB")
			p.Size = rapid.SampledFrom([]uint32{1, 2, 2048, 1<<32 - 1, 1 << 31, 1<<23 + 1}).Draw(t, "sizeB")
		default:
			max := m.Sectors
			if max > 1<<32-1 {
				max = 1<<32 - 1
			}
			if max < 2 {
				max = 2
			}
			p.Start = uint32(rapid.Int64Range(1, int64(max-1)).Draw(t, "startIn"))
			p.Size = uint32(rapid.Int64Range(1, int64(max)-int64(p.Start)).Draw(t, "sizeIn"))
		}
		m.Parts = append(m.Parts, p)
	}
	return m
}

func genTableSpec(t *rapid.T, hugeOK bool) tableSpec {
	if rapid.IntRange(0, 2).Draw(t, "tableKind") == 0 {
		return tableSpec{M: genMBRSpec(t, hugeOK)}
	}
	return tableSpec{G: genGPTSpec(t, hugeOK)}
}
