package props

// C15, coverage-guided: a native fuzz campaign over multi-field corruptions of two fixed valid GPT images
// (thorough tier). Input = base selector, flags (recompute header CRC / array CRC), and up to four 12-byte
// fault records (1 byte structure, 2 bytes offset, 1 byte width, 8 bytes value). Same oracle as TestC15.

import (
	"testing"

	"verifharness/hx"
)

var c15FuzzBases = []tableSpec{
	{G: &gptSpec{LSS: 512, Sectors: 2048, PMBR: true, GUID: "A3054900-00D2-E05B-0404-BF896C03D897", Parts: []gptPart{
		{Index: 1, Start: 40, End: 300, Type: "0FC63DAF-8483-4772-8E79-3D69D8477DE4", Name: "root", GUID: "00010365-FB04-FF25-0103-0CED150308D0"},
		{Index: 2, Start: 301, End: 1900, Type: "C12A7328-F81F-11D2-BA4B-00A0C93EC93B", Name: "EFI system partition with a long name", GUID: "10010365-FB04-FF25-0103-0CED150308D1"},
		{Index: 128, Start: 1901, End: 2000, Type: "0FC63DAF-8483-4772-8E79-3D69D8477DE4", Name: "last", GUID: "20010365-FB04-FF25-0103-0CED150308D2"},
	}}},
	{G: &gptSpec{LSS: 4096, Sectors: 300, PMBR: true, GUID: "B3054900-00D2-E05B-0404-BF896C03D897", Parts: []gptPart{
		{Index: 1, Start: 6, End: 200, Type: "0FC63DAF-8483-4772-8E79-3D69D8477DE4", Name: "x", GUID: "30010365-FB04-FF25-0103-0CED150308D3"},
	}}},
}

func FuzzC15(f *testing.F) {
	f.Add(uint8(0), uint8(1), []byte{0, 80, 0, 2, 0, 0, 0, 2, 0, 0, 0, 0})
	f.Add(uint8(1), uint8(1), []byte{0, 72, 0, 3, 0xff, 0xff, 0xff, 0xff, 0xff, 0xff, 0x07, 0, 0, 80, 0, 2, 0, 0, 1, 0, 0, 0, 0, 0})
	f.Add(uint8(0), uint8(3), []byte{2, 56, 0, 1, 0x41, 0x41, 0, 0, 0, 0, 0, 0})
	f.Fuzz(func(t *testing.T, base, flags uint8, prog []byte) {
		if len(prog) < 12 {
			return
		}
		s := c15FuzzBases[int(base)%len(c15FuzzBases)]
		wheres := []string{"primary", "backup", "parray", "barray", "lba0"}
		limit := map[string]int{"primary": 92, "backup": 92, "parray": 128 * 128, "barray": 128 * 128, "lba0": 512}
		fl := c15Fault{FixHCRC: flags&1 != 0, FixACRC: flags&2 != 0}
		for i := 0; i+12 <= len(prog) && len(fl.Pokes) < 4; i += 12 {
			rec := prog[i : i+12]
			w := wheres[int(rec[0])%len(wheres)]
			width := 1 << (rec[3] & 3)
			off := (int(rec[1]) | int(rec[2])<<8) % (limit[w] - width + 1)
			fl.Pokes = append(fl.Pokes, c15Poke{Where: w, Off: off, Hex: hexs(rec[4 : 4+width])})
		}
		hx.RunFuzz(t, "C15", c15Case{Base: &s, Stride: 1, Only: &fl})
	})
}
