package props

// C01 — FAT12/16/32 behave like a plain tree of named byte strings.
// C08 — FAT volumes stay structurally sound on disk (same histories, independent checker).

import (
	"testing"

	"pgregory.net/rapid"

	"verifharness/hx"
)

func fatMaxBytes() int64 {
	if hx.Thorough() {
		return 34 << 20
	}
	return 6 << 20
}

func genC01(t *rapid.T) any {
	return genFATHistory(t, fatGenOpts{prop: "C01", maxBytes: fatMaxBytes(), maxOps: 24})
}

func execC01(ci any) (r hx.Result) {
	c := ci.(histCase)
	x := &fatRun{c: c, r: &r, doModel: true}
	x.run()
	if (x.mutAfterRelease || x.sawENOSPC || x.sawReopen) && (x.m != nil && x.nodes() >= 3 || x.sawENOSPC) {
		r.Nontrivial = true
	}
	if x.sawENOSPC {
		r.Class("reached:refusal")
	}
	return
}

func genC08(t *rapid.T) any {
	return genFATHistory(t, fatGenOpts{prop: "C08", maxBytes: fatMaxBytes(), maxOps: 24})
}

func execC08(ci any) (r hx.Result) {
	c := ci.(histCase)
	x := &fatRun{c: c, r: &r, doFatck: true}
	x.run()
	if x.mutAfterRelease {
		r.Nontrivial = true
	}
	return
}

func init() {
	hx.Register(&hx.Spec{ID: "C01", Gen: genC01, Exec: execC01, New: func() any { return new(histCase) },
		Rule: "case = FAT configuration (type, size, start offset inside a larger device, sector size, label) + operation history (mkdir, create, write-at-offset, append, truncating open, rename incl. onto existing / case-only, remove, reopen-from-bytes, fill/empty/refill cycles, fill-then-remove-one-and-grow-another, populate/empty/repopulate cycles with a Mkdir in the full directory, data written in one or two Write calls per handle, a FAT32 configuration with first clusters beyond 65535, two live handles) plus the bounded-exhaustive enumeration of short histories (see 'enumeration'); after every step all listings and all file contents are compared with the reference model; non-trivial = a mutation after a release (remove/truncate/rename-over), or a refusal (no space / root full), or a reopen, with >= 3 live nodes or a refusal; distinct by hash of the case JSON"})
	hx.Register(&hx.Spec{ID: "C08", Gen: genC08, Exec: execC08, New: func() any { return new(histCase) },
		Rule: "case = FAT configuration + operation history (as C01); after Create and after every step, accepted or refused, an independent parser of the raw bytes checks geometry, FAT32 backup boot sector and FSInfo, identical FAT copies, every chain in range / terminated / long enough, no cross-links, no lost clusters; non-trivial = an operation that must release clusters followed by an allocating operation; distinct by hash of the case JSON"})
}

func TestC01(t *testing.T) { hx.RunProp(t, "C01") }
func TestC08(t *testing.T) { hx.RunProp(t, "C08") }
