package props

// C17 — Concurrent readers of one squashfs image are safe and correct.
// The test binary for this property is built with -race (see tools/propconf.py).

import (
	"bytes"
	"fmt"
	"io"
	iofs "io/fs"
	"os"
	"runtime"
	"sync"
	"testing"
	"time"

	"github.com/diskfs/go-diskfs/filesystem/squashfs"
	"pgregory.net/rapid"

	"verifharness/dev"
	"verifharness/hx"
	"verifharness/mk"
)

type c17Step struct {
	K    string `json:"k"` // read, seek, readdir, stat, reopen
	N    int    `json:"n,omitempty"`
	Off  int64  `json:"off,omitempty"`
	File int    `json:"file,omitempty"`
}

type c17Case struct {
	BS      int64       `json:"bs"`
	Opts    mk.SqOpts   `json:"opts"`
	Files   []int       `json:"files"` // sizes of the files f00, f01, ...
	Cache   int         `json:"cache"`
	Procs   int         `json:"procs"`
	Scripts [][]c17Step `json:"scripts"` // one per goroutine
	Resize  []int       `json:"resize,omitempty"`
	Yields  map[int]int `json:"yields,omitempty"`
}

func genC17(t *rapid.T) any {
	c := c17Case{}
	c.BS = rapid.SampledFrom([]int64{4096, 4096, 8192}).Draw(t, "bs")
	comps := []string{"gzip", "zstd", "none", "xz", "gzip"}
	if hx.Thorough() {
		// lz4 allocates 4 MiB decode buffers per block; under the race detector that dominates the run
		comps = append(comps, "lz4")
	}
	c.Opts = mk.SqOpts{Comp: rapid.SampledFrom(comps).Draw(t, "comp")}
	if c.Opts.Comp == "gzip" {
		c.Opts.Level = rapid.SampledFrom([]int{6, 6, 1, 0}).Draw(t, "gzipLevel")
	}
	c.Opts.NoFragments = rapid.IntRange(0, 4).Draw(t, "nofrag") == 0
	bs := int(c.BS)
	nf := rapid.IntRange(3, 10).Draw(t, "nfiles")
	if rapid.IntRange(0, 11).Draw(t, "manyFiles") == 0 {
		// enough inodes and directory entries for several 8 KiB metadata blocks per table, so that goroutines
		// starting on different files miss on different metadata blocks at the same time
		nf = rapid.SampledFrom([]int{220, 240}).Draw(t, "nfilesMany")
	}
	for i := 0; i < nf; i++ {
		if nf > 10 {
			// sparse-looking multi-block files have long block lists: the inode table grows to tens of KiB
			c.Files = append(c.Files, []int{1, 100, 4*bs + 5, bs / 3, 6*bs + 1}[i%5])
			continue
		}
		c.Files = append(c.Files, rapid.SampledFrom([]int{1, 100, bs / 3, bs - 1, bs, bs + 1, 2*bs + 77, 5*bs + bs/2, 9 * bs}).Draw(t, "fsize"))
	}
	c.Cache = rapid.SampledFrom([]int{-1, 0, 1, bs, 2 * bs, 4 * bs, 1 << 20}).Draw(t, "cache")
	c.Procs = rapid.SampledFrom([]int{1, 2, 4, 16}).Draw(t, "procs")
	g := rapid.SampledFrom([]int{2, 3, 4, 8, 16, 32}).Draw(t, "goroutines")
	for i := 0; i < g; i++ {
		var sc []c17Step
		n := rapid.IntRange(2, 10).Draw(t, "steps")
		file := rapid.IntRange(0, nf-1).Draw(t, "file")
		for j := 0; j < n; j++ {
			switch rapid.IntRange(0, 9).Draw(t, "kind") {
			case 0, 1, 2, 3, 4, 5:
				sc = append(sc, c17Step{K: "read", N: rapid.SampledFrom([]int{1, 7, 100, bs - 1, bs, bs + 1, 3 * bs, 12 * bs}).Draw(t, "n")})
			case 6:
				sc = append(sc, c17Step{K: "seek", Off: int64(rapid.IntRange(0, c.Files[file]).Draw(t, "off"))})
			case 7:
				sc = append(sc, c17Step{K: "readdir"})
			case 8:
				sc = append(sc, c17Step{K: "stat", File: rapid.IntRange(0, nf-1).Draw(t, "statFile")})
			case 9:
				file = rapid.IntRange(0, nf-1).Draw(t, "file2")
				sc = append(sc, c17Step{K: "reopen", File: file})
			}
		}
		sc = append([]c17Step{{K: "reopen", File: file}}, sc...)
		c.Scripts = append(c.Scripts, sc)
	}
	if rapid.IntRange(0, 2).Draw(t, "resizer") != 0 {
		c.Resize = rapid.SliceOfN(rapid.SampledFrom([]int{0, 1, bs, 2 * bs, 8 * bs, 1 << 20, 128 << 20}), 1, 12).Draw(t, "resize")
	}
	if rapid.Bool().Draw(t, "yields") {
		c.Yields = map[int]int{}
		for i := 0; i < rapid.IntRange(1, 20).Draw(t, "nyields"); i++ {
			c.Yields[rapid.IntRange(1, 200).Draw(t, "yieldAt")] = rapid.SampledFrom([]int{1, 1, 50, 200}).Draw(t, "yieldKind")
		}
	}
	return c
}

func c17Name(i int) string { return fmt.Sprintf("dir/f%02d.bin", i) } // three digits from 100 on

func execC17(ci any) (r hx.Result) {
	r = execC17Once(ci, 3*watchdog())
	if r.Sig == "deadlock" {
		// a loaded machine can make one attempt slow: only a second, solo attempt with a doubled
		// budget that still does not finish is reported
		r2 := execC17Once(ci, 6*watchdog())
		if r2.Sig != "deadlock" {
			r2.Note("first attempt exceeded the watchdog, the repeat finished")
			return r2
		}
		return r2
	}
	return r
}

func execC17Once(ci any, budget time.Duration) (r hx.Result) {
	c := ci.(c17Case)
	r.Class("comp:" + c.Opts.Comp)
	r.Class(fmt.Sprintf("goroutines:%d", len(c.Scripts)))
	r.Class(fmt.Sprintf("procs:%d", c.Procs))
	var tree []mk.Entry
	tree = append(tree, mk.Entry{Path: "dir", Kind: mk.KDir})
	contents := make([][]byte, len(c.Files))
	working := 0
	for i, sz := range c.Files {
		ct := mk.Content{Seed: uint32(i + 1), Len: sz, Style: []int{0, 2, 3}[i%3]}
		contents[i] = ct.Bytes()
		tree = append(tree, mk.Entry{Path: c17Name(i), Kind: mk.KFile, Data: ct})
		working += sz
	}
	size := int64(8 << 20)
	if int64(working)*2+(4<<20) > size {
		size = (int64(working)*2 + (4 << 20)) / 4096 * 4096
	}
	d := dev.New(size)
	if err := mk.BuildSquashfs(d, size, 0, c.BS, tree, c.Opts); err != nil {
		r.Discard = true
		r.Note("build refused: %s", firstWords(err.Error(), 8))
		return
	}
	fsys, err := squashfs.Read(d, size, 0, c.BS)
	if err != nil {
		r.Fail("open", "cannot open the image: %v", err)
		return
	}
	if c.Cache >= 0 {
		fsys.SetCacheSize(c.Cache)
	}
	if c.Yields != nil {
		d.SetYieldPlan(c.Yields)
	}
	old := runtime.GOMAXPROCS(c.Procs)
	defer runtime.GOMAXPROCS(old)
	if (len(c.Scripts) >= 4 && c.Cache >= 0 && c.Cache < working) || len(c.Resize) > 0 {
		r.Nontrivial = true
	}
	var mu sync.Mutex
	fail := func(sig, f string, a ...any) {
		mu.Lock()
		if !r.Failed() {
			r.Fail(sig, f, a...)
		}
		mu.Unlock()
	}
	var wg sync.WaitGroup
	stop := make(chan struct{})
	for gi, sc := range c.Scripts {
		wg.Add(1)
		go func(gi int, sc []c17Step) {
			defer wg.Done()
			defer func() {
				if p := recover(); p != nil {
					fail("panic:"+panicKind(p), "goroutine %d panicked: %v", gi, p)
				}
			}()
			var f io.ReadSeekCloser
			file := 0
			pos := int64(0)
			for si, stp := range sc {
				select {
				case <-stop:
					return
				default:
				}
				switch stp.K {
				case "reopen":
					if f != nil {
						f.Close()
					}
					file = stp.File
					h, err := fsys.OpenFile(c17Name(file), os.O_RDONLY)
					if err != nil {
						fail("open-error", "goroutine %d step %d: OpenFile(%s): %v", gi, si, c17Name(file), err)
						return
					}
					f = h
					pos = 0
				case "read":
					buf := make([]byte, stp.N)
					n, err := f.Read(buf)
					want := contents[file]
					remain := int64(len(want)) - pos
					if err != nil && err != io.EOF {
						fail("read-error", "goroutine %d step %d: Read(%d) of %s at %d failed: %v", gi, si, stp.N, c17Name(file), pos, err)
						return
					}
					if int64(n) > remain || (remain > 0 && n == 0) {
						fail("read-count", "goroutine %d step %d: Read(%d) of %s at %d returned %d bytes, %d remain", gi, si, stp.N, c17Name(file), pos, n, remain)
						return
					}
					if n > 0 && !bytes.Equal(buf[:n], want[pos:pos+int64(n)]) {
						fail("read-bytes", "goroutine %d step %d: Read(%d) of %s at %d returned bytes a sequential reader would not see", gi, si, stp.N, c17Name(file), pos)
						return
					}
					pos += int64(n)
				case "seek":
					off := stp.Off
					if off > int64(len(contents[file])) {
						off = int64(len(contents[file]))
					}
					np, err := f.Seek(off, io.SeekStart)
					if err != nil || np != off {
						fail("seek", "goroutine %d step %d: Seek(%d) = %d, %v", gi, si, off, np, err)
						return
					}
					pos = off
				case "readdir":
					ents, err := fsys.ReadDir("dir")
					if err != nil || len(ents) != len(c.Files) {
						fail("readdir", "goroutine %d step %d: ReadDir(dir) = %d entries, %v (want %d)", gi, si, len(ents), err, len(c.Files))
						return
					}
				case "stat":
					fi, err := iofs.Stat(fsys, c17Name(stp.File))
					if err != nil || fi.Size() != int64(c.Files[stp.File]) {
						fail("stat", "goroutine %d step %d: Stat(%s) size/err = %v, %v", gi, si, c17Name(stp.File), fi, err)
						return
					}
				}
			}
			if f != nil {
				f.Close()
			}
		}(gi, sc)
	}
	if len(c.Resize) > 0 {
		wg.Add(1)
		go func() {
			defer wg.Done()
			for _, v := range c.Resize {
				select {
				case <-stop:
					return
				default:
				}
				fsys.SetCacheSize(v)
				runtime.Gosched()
				time.Sleep(50 * time.Microsecond)
			}
		}()
	}
	done := make(chan struct{})
	go func() { wg.Wait(); close(done) }()
	select {
	case <-done:
	case <-time.After(budget):
		close(stop)
		buf := make([]byte, 1<<16)
		n := runtime.Stack(buf, true)
		fail("deadlock", "readers did not finish within %v; goroutine dump (head): %s", budget, firstWords(string(buf[:n]), 120))
	}
	return
}

func init() {
	hx.Register(&hx.Spec{ID: "C17", Gen: genC17, Exec: execC17, New: func() any { return new(c17Case) }, Journal: true,
		Rule: "case = one squashfs image (files sharing fragment and metadata blocks, compressor, block size) read by 2..32 goroutines with their own handles and generated scripts (read chunk sizes, seeks, ReadDir, Stat, reopen), cache size 0/1/block/few blocks/default, an optional concurrent SetCacheSize sequence, GOMAXPROCS 1/2/4/16 and a yield/sleep plan injected into the backend's ReadAt; run under the race detector; non-trivial = >= 4 goroutines with a cache smaller than the working set, or a concurrent resize; distinct by hash of the case JSON"})
}

func TestC17(t *testing.T) { hx.RunProp(t, "C17") }
