package props

// C02 — Partition tables read back as written and are valid on disk.

import (
	"encoding/binary"
	"fmt"
	"strings"
	"testing"

	diskfs "github.com/diskfs/go-diskfs"
	"github.com/diskfs/go-diskfs/partition"
	"github.com/diskfs/go-diskfs/partition/gpt"
	"github.com/diskfs/go-diskfs/partition/mbr"
	"pgregory.net/rapid"

	"verifharness/dev"
	"verifharness/hx"
	"verifharness/indep"
)

type c02Case struct {
	Prev    *tableSpec `json:"prev,omitempty"` // table written first (rewrite class); geometry of New is used
	New     tableSpec  `json:"new"`
	DiskSig uint32     `json:"disksig"`           // pre-existing MBR disk signature bytes 440..443
	SameObj bool       `json:"sameobj,omitempty"` // rewrite: read the previous GPT back, change that very object into the new table, write it again
}

func genC02(t *rapid.T) any {
	c := c02Case{}
	c.New = genTableSpec(t, true)
	c.DiskSig = rapid.Uint32().Draw(t, "disksig")
	if rapid.IntRange(0, 3).Draw(t, "rewrite") == 0 {
		// previous table on the same disk geometry
		if rapid.Bool().Draw(t, "prevKind") || c.New.lss() != 512 && c.New.M != nil {
			g := &gptSpec{LSS: c.New.lss(), Sectors: uint64(c.New.diskSize() / int64(c.New.lss()))}
			as := gptArraySectors(g.LSS)
			if g.Sectors >= 2+2*as+2 {
				genGPTParts(t, g)
				c.Prev = &tableSpec{G: g}
			}
		} else {
			m := genMBRSpec(t, false)
			m.LSS = c.New.lss()
			m.Sectors = uint64(c.New.diskSize() / int64(m.LSS))
			c.Prev = &tableSpec{M: m}
		}
		if c.Prev != nil && c.Prev.G != nil && c.New.G != nil {
			c.Prev.G.PSS = c.New.G.PSS
			c.SameObj = rapid.Bool().Draw(t, "sameObject")
		}
	}
	return c
}

func openDisk(d *dev.Device, lss int) (*diskHandle, error) {
	var opts []diskfs.OpenOpt
	if lss == 4096 {
		opts = append(opts, diskfs.WithSectorSize(diskfs.SectorSize4k))
	}
	dk, err := diskfs.OpenBackend(d, opts...)
	if err != nil {
		return nil, err
	}
	return &diskHandle{dk}, nil
}

func writeTable(d *dev.Device, s tableSpec) (err error, panicked bool, pv any, stack string) {
	panicked, pv, stack = hx.Safe(func() {
		if s.G != nil {
			err = s.G.table().Write(d, s.diskSize())
		} else {
			err = s.M.table().Write(d, s.diskSize())
		}
	})
	return
}

func execC02(ci any) (r hx.Result) {
	c := ci.(c02Case)
	s := c.New
	size := s.diskSize()
	lss := s.lss()
	d := dev.New(size)
	var sig [4]byte
	binary.LittleEndian.PutUint32(sig[:], c.DiskSig)
	d.Poke(440, sig[:])
	r.Class("kind:" + s.kind())
	r.Class(fmt.Sprintf("lss:%d", lss))
	if c.Prev != nil {
		r.Class("rewrite:" + c.Prev.kind() + "->" + s.kind())
		if err, p, _, _ := writeTable(d, *c.Prev); err != nil || p {
			r.Discard = true
			r.Class("prev-rejected")
			return
		}
	}
	if size >= int64(1)<<32*int64(lss) {
		r.Class("geometry:>=2^32 sectors")
	} else if size >= 1<<32 {
		r.Class("geometry:>=4GiB")
	}
	var err error
	var p bool
	var pv any
	var st string
	if c.SameObj && c.Prev != nil && c.Prev.G != nil && s.G != nil {
		// the read-modify-write flow on one Table object (GetPartitionTable, change Partitions, Partition(sameTable)):
		// nothing the object remembers about the table it was read from may survive into the bytes it writes
		r.Class("rewrite:same-object")
		p, pv, st = hx.Safe(func() {
			var rt *gpt.Table
			rt, err = gpt.Read(d, lss, s.G.pss())
			if err != nil {
				return
			}
			nt := s.G.table()
			rt.Partitions, rt.GUID, rt.ProtectiveMBR = nt.Partitions, nt.GUID, nt.ProtectiveMBR
			err = rt.Write(d, size)
		})
	} else {
		err, p, pv, st = writeTable(d, s)
	}
	if p {
		r.Fail("write-panic", "Table.Write panicked on an in-domain table: %v [%s]", pv, st)
		return
	}
	if err != nil {
		r.Discard = true
		r.Class("write-rejected")
		r.Note("write rejected: %s", firstWords(err.Error(), 8))
		return
	}
	if s.G != nil {
		c02CheckGPT(&r, c, d)
	} else {
		c02CheckMBR(&r, c, d)
	}
	return
}

func firstWords(s string, n int) string {
	f := strings.Fields(s)
	if len(f) > n {
		f = f[:n]
	}
	return strings.Join(f, " ")
}

func validGUIDString(g string) bool {
	if len(g) != 36 {
		return false
	}
	nz := false
	for i, ch := range g {
		switch i {
		case 8, 13, 18, 23:
			if ch != '-' {
				return false
			}
		default:
			if !strings.ContainsRune("0123456789ABCDEFabcdef", ch) {
				return false
			}
			if ch != '0' {
				nz = true
			}
		}
	}
	return nz
}

func c02CheckGPT(r *hx.Result, c c02Case, d *dev.Device) {
	g := c.New.G
	lss := g.LSS
	size := c.New.diskSize()
	n := len(g.Parts)
	if n >= 2 || lss != 512 || c.Prev != nil || size >= 1<<32 {
		r.Nontrivial = true
	}
	spelled := false
	for _, p := range g.Parts {
		if p.End == 0 || (p.End != 0 && p.Size != 0) {
			spelled = true
		}
	}
	if spelled {
		r.Nontrivial = true
	}
	want := map[int]gptPart{}
	for _, p := range g.Parts {
		want[p.Index] = p
	}
	var rt *gpt.Table
	var err error
	if p, pv, st := hx.Safe(func() { rt, err = gpt.Read(d, lss, g.pss()) }); p {
		r.Fail("gpt-read-panic", "gpt.Read panicked on bytes written by Write: %v [%s]", pv, st)
		return
	}
	if err != nil {
		r.Fail("gpt-read-error", "gpt.Read fails on the table Write accepted: %v", err)
		return
	}
	if rt.RecoveredFromBackup {
		r.Fail("gpt-read-backup", "completed Write reads back from the backup copy (primary invalid)")
		return
	}
	cmp := func(src string, parts []*gpt.Partition, guid string) bool {
		if len(parts) != n {
			r.Fail("gpt-count", "%s: %d partitions read back, %d written", src, len(parts), n)
			return false
		}
		seen := map[int]bool{}
		for _, p := range parts {
			w, ok := want[p.Index]
			if !ok || seen[p.Index] {
				r.Fail("gpt-index", "%s: partition with index %d read back but not written (or twice)", src, p.Index)
				return false
			}
			seen[p.Index] = true
			first, last := w.firstLast(lss)
			if p.Start != first || p.End != last {
				r.Fail("gpt-range", "%s: index %d start/end %d/%d, written %d/%d", src, p.Index, p.Start, p.End, first, last)
				return false
			}
			if p.Size != (last-first+1)*uint64(lss) {
				r.Fail("gpt-size", "%s: index %d size %d bytes, want %d", src, p.Index, p.Size, (last-first+1)*uint64(lss))
				return false
			}
			if !strings.EqualFold(string(p.Type), w.Type) {
				r.Fail("gpt-type", "%s: index %d type %s, written %s", src, p.Index, p.Type, w.Type)
				return false
			}
			if p.Name != w.Name {
				r.Fail("gpt-name", "%s: index %d name %q, written %q", src, p.Index, p.Name, w.Name)
				return false
			}
			if p.Attributes != w.Attrs {
				r.Fail("gpt-attrs", "%s: index %d attributes %#x, written %#x", src, p.Index, p.Attributes, w.Attrs)
				return false
			}
			if w.GUID != "" {
				if !strings.EqualFold(p.GUID, w.GUID) {
					r.Fail("gpt-guid", "%s: index %d GUID %s, written %s", src, p.Index, p.GUID, w.GUID)
					return false
				}
			} else if !validGUIDString(p.GUID) {
				r.Fail("gpt-guid-gen", "%s: index %d generated GUID %q is not a valid GUID", src, p.Index, p.GUID)
				return false
			}
		}
		if g.GUID != "" {
			if !strings.EqualFold(guid, g.GUID) {
				r.Fail("gpt-diskguid", "%s: disk GUID %s, written %s", src, guid, g.GUID)
				return false
			}
		} else if !validGUIDString(guid) {
			r.Fail("gpt-diskguid-gen", "%s: generated disk GUID %q invalid", src, guid)
			return false
		}
		return true
	}
	if !cmp("gpt.Read", rt.Partitions, rt.GUID) {
		return
	}
	if c.Prev == nil && rt.ProtectiveMBR != g.PMBR {
		r.Fail("gpt-pmbr-flag", "ProtectiveMBR reads back %v, written %v", rt.ProtectiveMBR, g.PMBR)
		return
	}
	// second read is stable (generated GUIDs included)
	rt2, err := gpt.Read(d, lss, g.pss())
	if err != nil || rt2.GUID != rt.GUID || len(rt2.Partitions) != len(rt.Partitions) {
		r.Fail("gpt-reread", "second gpt.Read differs: err=%v", err)
		return
	}
	for i := range rt.Partitions {
		if *rt.Partitions[i] != *rt2.Partitions[i] {
			r.Fail("gpt-reread", "second gpt.Read differs at partition %d", rt.Partitions[i].Index)
			return
		}
	}
	// partition.Read must report GPT, not the protective MBR
	var pt partition.Table
	if p, pv, st := hx.Safe(func() { pt, err = partition.Read(d, lss, g.pss()) }); p {
		r.Fail("part-read-panic", "partition.Read panicked: %v [%s]", pv, st)
		return
	}
	if err != nil {
		r.Fail("part-read-error", "partition.Read fails: %v", err)
		return
	}
	if pt.Type() != "gpt" {
		r.Fail("part-read-type", "partition.Read reports %q for a GPT disk", pt.Type())
		return
	}
	gt := pt.(*gpt.Table)
	if !cmp("partition.Read", gt.Partitions, gt.GUID) {
		return
	}
	// Disk.GetPartition byte ranges
	dk, err := openDisk(d, lss)
	if err != nil {
		r.Fail("disk-open", "diskfs.OpenBackend fails on the partitioned device: %v", err)
		return
	}
	if dk.Table == nil || dk.Table.Type() != "gpt" {
		r.Fail("disk-table", "opened disk does not report the GPT (table=%v)", dk.Table)
		return
	}
	for _, w := range g.Parts {
		first, last := w.firstLast(lss)
		p, err := dk.GetPartition(w.Index)
		if err != nil {
			r.Fail("disk-getpartition", "Disk.GetPartition(%d): %v", w.Index, err)
			return
		}
		if uint64(p.GetStart()) != first*uint64(lss) || uint64(p.GetSize()) != (last-first+1)*uint64(lss) {
			r.Fail("disk-byterange", "Disk.GetPartition(%d) reports start=%d size=%d, want start=%d size=%d", w.Index, p.GetStart(), p.GetSize(), first*uint64(lss), (last-first+1)*uint64(lss))
			return
		}
	}
	// independent parser
	sectors := uint64(size / int64(lss))
	as := gptArraySectors(lss)
	prim, err := indep.ParseGPTHeader(d, lss, 1, size)
	if err != nil {
		r.Fail("indep-primary", "independent parser cannot read primary header: %v", err)
		return
	}
	back, err := indep.ParseGPTHeader(d, lss, sectors-1, size)
	if err != nil {
		r.Fail("indep-backup", "independent parser cannot read backup header: %v", err)
		return
	}
	chk := func(name string, h *indep.GPTHeader, my, alt, arr uint64) bool {
		switch {
		case !h.SignatureOK:
			r.Fail("indep-sig", "%s header: no EFI PART signature", name)
		case h.Revision != 0x00010000:
			r.Fail("indep-rev", "%s header: revision %#x", name, h.Revision)
		case h.HeaderSize != 92:
			r.Fail("indep-hsize", "%s header: size %d", name, h.HeaderSize)
		case !h.HeaderCRCOK:
			r.Fail("indep-hcrc", "%s header: header CRC wrong", name)
		case h.Reserved != 0 || !h.TailZero:
			r.Fail("indep-reserved", "%s header: reserved bytes not zero", name)
		case h.MyLBA != my || h.AltLBA != alt:
			r.Fail("indep-lbas", "%s header: my/alternate LBA %d/%d, want %d/%d", name, h.MyLBA, h.AltLBA, my, alt)
		case h.ArrayLBA != arr:
			r.Fail("indep-arraylba", "%s header: entry array at LBA %d, want %d", name, h.ArrayLBA, arr)
		case h.FirstUsable != 2+as || h.LastUsable != sectors-1-as-1:
			r.Fail("indep-usable", "%s header: usable %d..%d, want %d..%d", name, h.FirstUsable, h.LastUsable, 2+as, sectors-1-as-1)
		case h.NumEntries != 128 || h.EntrySize != 128:
			r.Fail("indep-arraygeo", "%s header: %d entries of %d bytes", name, h.NumEntries, h.EntrySize)
		case !h.ArrayInRange || !h.ArrayCRCOK:
			r.Fail("indep-acrc", "%s header: entry array CRC wrong (inRange=%v)", name, h.ArrayInRange)
		default:
			return true
		}
		return false
	}
	if !chk("primary", prim, 1, sectors-1, 2) || !chk("backup", back, sectors-1, 1, sectors-1-as) {
		return
	}
	if prim.DiskGUID != back.DiskGUID || !strings.EqualFold(prim.DiskGUID, rt.GUID) {
		r.Fail("indep-diskguid", "disk GUID primary %s backup %s library %s", prim.DiskGUID, back.DiskGUID, rt.GUID)
		return
	}
	for _, h := range []*indep.GPTHeader{prim, back} {
		if len(h.Entries) != n {
			r.Fail("indep-count", "independent parser finds %d entries in the %d-LBA array, %d written", len(h.Entries), h.LBA, n)
			return
		}
		for _, e := range h.Entries {
			w, ok := want[e.Index]
			if !ok {
				r.Fail("indep-slot", "independent parser: slot %d used but not written", e.Index)
				return
			}
			first, last := w.firstLast(lss)
			if e.First != first || e.Last != last || !strings.EqualFold(e.TypeGUID, w.Type) || e.Attrs != w.Attrs || e.Name != w.Name || (w.GUID != "" && !strings.EqualFold(e.GUID, w.GUID)) {
				r.Fail("indep-entry", "independent parser: slot %d = {%s %s %d..%d %#x %q}, written {%s %s %d..%d %#x %q}", e.Index, e.TypeGUID, e.GUID, e.First, e.Last, e.Attrs, e.Name, w.Type, w.GUID, first, last, w.Attrs, w.Name)
				return
			}
		}
	}
	if g.PMBR {
		m, err := indep.ParseMBR(d)
		if err != nil {
			r.Fail("indep-pmbr", "cannot parse LBA 0: %v", err)
			return
		}
		if ok, why := m.IsProtective(sectors); !ok {
			r.Fail("indep-pmbr", "protective MBR invalid for an independent parser: %s", why)
			return
		}
	}
}

func c02CheckMBR(r *hx.Result, c c02Case, d *dev.Device) {
	m := c.New.M
	n := len(m.Parts)
	if n >= 2 || m.LSS != 512 || c.Prev != nil {
		r.Nontrivial = true
	}
	var rt *mbr.Table
	var err error
	if p, pv, st := hx.Safe(func() { rt, err = mbr.Read(d, m.LSS, m.LSS) }); p {
		r.Fail("mbr-read-panic", "mbr.Read panicked: %v [%s]", pv, st)
		return
	}
	if err != nil {
		r.Fail("mbr-read-error", "mbr.Read fails on the table Write accepted: %v", err)
		return
	}
	if len(rt.Partitions) != 4 {
		r.Fail("mbr-count", "mbr.Read returns %d slots", len(rt.Partitions))
		return
	}
	for i, p := range rt.Partitions {
		var w mbrPart
		if i < n {
			w = m.Parts[i]
		}
		if p.Index != i+1 || p.Bootable != w.Boot || byte(p.Type) != w.Type || p.Start != w.Start || p.Size != w.Size {
			r.Fail("mbr-slot", "slot %d reads back {idx %d boot %v type %#x start %d size %d}, written {boot %v type %#x start %d size %d}", i+1, p.Index, p.Bootable, byte(p.Type), p.Start, p.Size, w.Boot, w.Type, w.Start, w.Size)
			return
		}
	}
	if rt.UUID() != fmt.Sprintf("%08x", c.DiskSig) {
		r.Fail("mbr-identity", "disk signature reads back %s, on disk %08x", rt.UUID(), c.DiskSig)
		return
	}
	im, err := indep.ParseMBR(d)
	if err != nil || !im.SignatureOK {
		r.Fail("indep-mbr-sig", "independent parser: no valid MBR signature (%v)", err)
		return
	}
	if im.DiskSig != c.DiskSig {
		r.Fail("indep-mbr-disksig", "disk signature changed: %08x -> %08x", c.DiskSig, im.DiskSig)
		return
	}
	for i := 0; i < 4; i++ {
		var w mbrPart
		if i < n {
			w = m.Parts[i]
		}
		s := im.Slots[i]
		wb := byte(0)
		if w.Boot {
			wb = 0x80
		}
		if s.Boot != wb || s.Type != w.Type || s.Start != w.Start || s.Sectors != w.Size {
			r.Fail("indep-mbr-slot", "independent parser: slot %d = {%#x %#x %d %d}, written {%#x %#x %d %d}", i+1, s.Boot, s.Type, s.Start, s.Sectors, wb, w.Type, w.Start, w.Size)
			return
		}
	}
	prevGPT := c.Prev != nil && c.Prev.G != nil
	if prevGPT {
		// A stale GPT is still on the disk; partition.Read prefers GPT. The statement does not
		// say which table wins here and an MBR Write may only touch its own bytes (C03).
		r.Note("MBR written over a GPT disk: partition.Read still reports the stale GPT")
		return
	}
	var pt partition.Table
	if p, pv, st := hx.Safe(func() { pt, err = partition.Read(d, m.LSS, m.LSS) }); p {
		r.Fail("part-read-panic", "partition.Read panicked: %v [%s]", pv, st)
		return
	}
	if err != nil {
		r.Fail("part-read-error", "partition.Read fails on an MBR disk: %v", err)
		return
	}
	if pt.Type() != "mbr" {
		r.Fail("part-read-type", "partition.Read reports %q for an MBR disk", pt.Type())
		return
	}
	if m.LSS == 512 {
		dk, err := openDisk(d, 512)
		if err != nil {
			r.Fail("disk-open", "diskfs.OpenBackend fails: %v", err)
			return
		}
		for i, w := range m.Parts {
			p, err := dk.GetPartition(i + 1)
			if err != nil {
				r.Fail("disk-getpartition", "Disk.GetPartition(%d): %v", i+1, err)
				return
			}
			if p.GetStart() != int64(w.Start)*512 || p.GetSize() != int64(w.Size)*512 {
				r.Fail("disk-byterange", "Disk.GetPartition(%d) reports start=%d size=%d, want %d/%d", i+1, p.GetStart(), p.GetSize(), int64(w.Start)*512, int64(w.Size)*512)
				return
			}
		}
	}
}

func init() {
	hx.Register(&hx.Spec{ID: "C02", Gen: genC02, Exec: execC02, New: func() any { return new(c02Case) },
		Rule: "case = generated GPT/MBR table (+ optional previous table on the same disk) x disk geometry; non-trivial = >=2 partitions, or a non-default start/end/size spelling, or 4096-byte sectors, or >=4 GiB geometry, or a rewrite over an existing table; a table Write rejects is discarded; distinct by hash of the case JSON"})
}

func TestC02(t *testing.T) { hx.RunProp(t, "C02") }
