package props

// C10 — File handles honour the Read/Seek contract on every filesystem.
// Oracle: a position/contents model equivalent to bytes.Reader (relaxed only
// where io.Reader/io.Seeker allow), on a file of known content.

import (
	"bytes"
	"fmt"
	"io"
	"os"
	"sync"
	"testing"

	"github.com/diskfs/go-diskfs/filesystem"
	"github.com/diskfs/go-diskfs/filesystem/ext4"
	"github.com/diskfs/go-diskfs/filesystem/iso9660"
	"github.com/diskfs/go-diskfs/filesystem/squashfs"
	"pgregory.net/rapid"

	"verifharness/dev"
	"verifharness/hx"
	"verifharness/indep"
	"verifharness/mk"
)

type c10Op struct {
	K   string `json:"k"` // read, seek, close
	N   int    `json:"n,omitempty"`
	Off int64  `json:"off,omitempty"`
	Wh  int    `json:"wh,omitempty"`
}

// c10Wr makes the handle under test a read-write handle that created its file: the cursor it carries into the
// Read/Seek sequence was left by a Write, possibly one that started beyond the end of the file.
type c10Wr struct {
	Gap int `json:"gap"`
	N   int `json:"n"`
}

type c10Case struct {
	FS    string  `json:"fs"`
	Size  int     `json:"size"`
	Frag  bool    `json:"frag"`
	Start int64   `json:"start,omitempty"` // offset of the filesystem inside a larger device
	Wr    *c10Wr  `json:"wr,omitempty"`    // the handle under test first writes its own file: Seek(Gap), Write(N bytes)
	Ops   []c10Op `json:"ops"`
}

var c10Variants = []string{"fat12", "fat16", "fat32", "ext4-1k", "ext4-4k", "ext4-sparse", "iso", "iso-rr", "sq-none", "sq-gzip", "sq-zstd", "sq-xz", "sq-lz4", "sq-gzip-nofrag"}

func c10Unit(v string) int {
	switch v {
	case "fat12", "fat16", "ext4-1k", "ext4-sparse":
		return 1024
	case "fat32":
		return 512
	case "ext4-4k":
		return 4096
	case "iso", "iso-rr":
		return 2048
	}
	return 4096 // squashfs block size used here
}

type c10Image struct {
	d     *dev.Device
	size  int64
	open  func() (filesystem.File, error)
	err   error
	bytes []byte
}

var (
	c10Mu    sync.Mutex
	c10Cache = map[string]*c10Image{}
)

func c10Content(size int) []byte {
	return mk.Content{Seed: uint32(size)*7 + 1, Len: size, Style: 0}.Bytes()
}

// writeInterleaved appends data to /TARGET.BIN in pieces, alternating with
// appends to another file so the target's clusters/extents are not contiguous.
// Only one handle is live at any time.
func writeInterleaved(fs filesystem.FileSystem, target, other string, data []byte, piece int, frag bool) error {
	appendTo := func(name string, b []byte, first bool) error {
		flag := os.O_RDWR | os.O_APPEND
		if first {
			flag = os.O_RDWR | os.O_CREATE
		}
		f, err := fs.OpenFile(name, flag)
		if err != nil {
			return fmt.Errorf("open %s: %w", name, err)
		}
		defer f.Close()
		if len(b) == 0 {
			return nil
		}
		n, err := f.Write(b)
		if err != nil {
			return fmt.Errorf("write %s: %w", name, err)
		}
		if n != len(b) {
			return fmt.Errorf("short write %s: %d of %d", name, n, len(b))
		}
		return nil
	}
	if !frag || len(data) == 0 {
		return appendTo(target, data, true)
	}
	filler := bytes.Repeat([]byte{0xEE}, piece)
	first := true
	for off := 0; off < len(data); off += piece {
		end := off + piece
		if end > len(data) {
			end = len(data)
		}
		if err := appendTo(target, data[off:end], first); err != nil {
			return err
		}
		if err := appendTo(other, filler, first); err != nil {
			return err
		}
		first = false
	}
	return nil
}

// c10SparseContent is a file of the given size whose 1 KiB blocks are data only at every third position
// (and at the very end, so that mke2fs -d does not drop a trailing hole): hole, data, hole, hole, data, ...
func c10SparseContent(size int, dense bool) []byte {
	b := make([]byte, size)
	data := mk.Content{Seed: uint32(size)*7 + 3, Len: size, Style: 0}.Bytes()
	for k := 0; k*1024 < size; k++ {
		end := (k + 1) * 1024
		if end > size {
			end = size
		}
		if k%3 == 1 || end == size || (dense && k%2 == 0) {
			copy(b[k*1024:end], data[k*1024:end])
			if b[end-1] == 0 {
				b[end-1] = 0x5a
			}
		}
	}
	return b
}

func c10Build(v string, size int, frag bool, st int64) *c10Image {
	key := fmt.Sprintf("%s/%d/%v/%d", v, size, frag, st)
	c10Mu.Lock()
	defer c10Mu.Unlock()
	if im, ok := c10Cache[key]; ok {
		return im
	}
	im := &c10Image{bytes: c10Content(size)}
	c10Cache[key] = im
	unit := c10Unit(v)
	var perr any
	p, val, stack := hx.Safe(func() {
		switch v {
		case "fat12", "fat16", "fat32":
			vol := map[string]int64{"fat12": 4 << 20, "fat16": 16 << 20, "fat32": 3 << 20}[v]
			im.size = vol
			im.d = dev.New(vol + st + 4096)
			fs, err := mk.CreateFAT(v, im.d, vol, st, 512, "C10", true)
			if err != nil {
				im.err = err
				return
			}
			if err := writeInterleaved(fs, "/TARGET.BIN", "/OTHER.BIN", im.bytes, unit, frag); err != nil {
				im.err = err
				return
			}
			im.open = func() (filesystem.File, error) {
				r, err := mk.ReadFAT(v, im.d, vol, st, 512)
				if err != nil {
					return nil, err
				}
				return r.OpenFile("/TARGET.BIN", os.O_RDONLY)
			}
		case "ext4-1k", "ext4-4k":
			vol := int64(24 << 20)
			o := mk.E4Opts{}
			if v == "ext4-4k" {
				vol = 96 << 20
				o.SectorsPerBlock = 8
				f := false
				o.ResizeIno = &f
			}
			im.size = vol
			im.d = dev.New(vol + st + 4096)
			fs, err := mk.CreateExt4(im.d, vol, st, o)
			if err != nil {
				im.err = err
				return
			}
			if err := writeInterleaved(fs, "target.bin", "other.bin", im.bytes, unit, frag); err != nil {
				im.err = err
				return
			}
			im.open = func() (filesystem.File, error) {
				r, err := ext4.Read(im.d, vol, st, 512)
				if err != nil {
					return nil, err
				}
				return r.OpenFile("target.bin", os.O_RDONLY)
			}
		case "ext4-sparse":
			// a sparse file inside an image made by the reference mke2fs -d (which keeps the holes): the handle
			// has to honour the contract across hole/extent boundaries as well
			im.bytes = c10SparseContent(size, frag)
			dir, err := os.MkdirTemp("", "verif_c10")
			if err != nil {
				im.err = err
				return
			}
			defer os.RemoveAll(dir)
			if im.err = os.Mkdir(dir+"/src", 0o755); im.err != nil {
				return
			}
			fh, err := os.Create(dir + "/src/target.bin")
			if err != nil {
				im.err = err
				return
			}
			for k := 0; k*1024 < size; k++ {
				end := (k + 1) * 1024
				if end > size {
					end = size
				}
				if !bytes.Equal(im.bytes[k*1024:end], make([]byte, end-k*1024)) {
					if _, im.err = fh.WriteAt(im.bytes[k*1024:end], int64(k)*1024); im.err != nil {
						return
					}
				}
			}
			if im.err = fh.Truncate(int64(size)); im.err != nil {
				return
			}
			fh.Close()
			if im.err = os.WriteFile(dir+"/src/other.bin", bytes.Repeat([]byte{0xEE}, 3000), 0o644); im.err != nil {
				return
			}
			if _, infra := indep.Mke2fs(dir+"/img", 4096, "-t", "ext4", "-b", "1024", "-I", "256", "-O", "^has_journal", "-d", dir+"/src"); infra != "" {
				im.err = fmt.Errorf("%s", infra)
				return
			}
			raw, err := os.ReadFile(dir + "/img")
			if err != nil {
				im.err = err
				return
			}
			vol := int64(len(raw))
			im.size = vol
			im.d = dev.New(vol + st + 4096)
			im.d.Poke(st, raw)
			im.open = func() (filesystem.File, error) {
				r, err := ext4.Read(im.d, vol, st, 512)
				if err != nil {
					return nil, err
				}
				return r.OpenFile("target.bin", os.O_RDONLY)
			}
		case "iso", "iso-rr":
			vol := int64(8 << 20)
			im.size = vol
			im.d = dev.New(vol + st + 4096)
			name := "target.bin"
			tree := []mk.Entry{{Path: name, Kind: mk.KFile, Data: mk.Content{Seed: uint32(size)*7 + 1, Len: size}}, {Path: "other.bin", Kind: mk.KFile, Data: mk.Content{Seed: 5, Len: 3000}}}
			if err := mk.BuildISO(im.d, vol, st, 2048, tree, mk.IsoOpts{RockRidge: v == "iso-rr"}); err != nil {
				im.err = err
				return
			}
			im.open = func() (filesystem.File, error) {
				r, err := iso9660.Read(im.d, vol, st, 2048)
				if err != nil {
					return nil, err
				}
				if v == "iso" {
					return r.OpenFile("/TARGET.BIN", os.O_RDONLY)
				}
				return r.OpenFile("/target.bin", os.O_RDONLY)
			}
		default: // squashfs
			vol := int64(8 << 20)
			im.size = vol
			im.d = dev.New(vol + st + 4096)
			o := mk.SqOpts{}
			switch v {
			case "sq-none":
				o.Comp = "none"
			case "sq-gzip":
				o.Comp = "gzip"
				o.Level = 6
			case "sq-zstd":
				o.Comp = "zstd"
			case "sq-xz":
				o.Comp = "xz"
			case "sq-lz4":
				o.Comp = "lz4"
			case "sq-gzip-nofrag":
				o.Comp = "gzip"
				o.NoFragments = true
			}
			style := 0
			if frag { // for squashfs "frag" selects compressible content with zero runs (sparse blocks)
				style = 3
				im.bytes = mk.Content{Seed: uint32(size)*7 + 1, Len: size, Style: 3}.Bytes()
			}
			tree := []mk.Entry{
				{Path: "other.bin", Kind: mk.KFile, Data: mk.Content{Seed: 5, Len: 700}},
				{Path: "target.bin", Kind: mk.KFile, Data: mk.Content{Seed: uint32(size)*7 + 1, Len: size, Style: style}},
				{Path: "zother.bin", Kind: mk.KFile, Data: mk.Content{Seed: 6, Len: 900}},
			}
			if err := mk.BuildSquashfs(im.d, vol, st, 4096, tree, o); err != nil {
				im.err = err
				return
			}
			im.open = func() (filesystem.File, error) {
				r, err := squashfs.Read(im.d, vol, st, 4096)
				if err != nil {
					return nil, err
				}
				return r.OpenFile("target.bin", os.O_RDONLY)
			}
		}
	})
	if p {
		perr = val
		im.err = fmt.Errorf("panic while building: %v [%s]", perr, stack)
	}
	return im
}

func genC10(t *rapid.T) any {
	c := c10Case{}
	c.FS = rapid.SampledFrom(c10Variants).Draw(t, "fs")
	u := c10Unit(c.FS)
	sizes := []int{0, 1, u - 1, u, u + 1, 2*u - 1, 2 * u, 2*u + 1, 3*u + 17, 5 * u, 8*u + u/2, 13*u + 300}
	if rapid.IntRange(0, 3).Draw(t, "sizeMode") == 0 {
		c.Size = rapid.IntRange(0, 20*u).Draw(t, "size")
	} else {
		c.Size = rapid.SampledFrom(sizes).Draw(t, "sizeB")
	}
	c.Frag = rapid.Bool().Draw(t, "frag")
	c.Start = rapid.SampledFrom([]int64{0, 0, 1 << 20}).Draw(t, "start")
	switch c.FS {
	case "fat12", "fat16", "fat32", "ext4-1k":
		if rapid.IntRange(0, 11).Draw(t, "writeFirst") == 0 {
			c.Wr = &c10Wr{Gap: rapid.SampledFrom([]int{0, 0, 1, u - 1, u, 2*u + 7}).Draw(t, "wrGap"), N: rapid.SampledFrom([]int{1, 100, u, 2*u + 3}).Draw(t, "wrN")}
		}
	}
	lens := []int{0, 1, 3, 7, u - 1, u, u + 1, 2*u + 5, 100, 1 << 20}
	nops := rapid.IntRange(1, 24).Draw(t, "nops")
	for i := 0; i < nops; i++ {
		switch rapid.IntRange(0, 9).Draw(t, "kind") {
		case 0, 1, 2, 3, 4, 5:
			n := 0
			if rapid.IntRange(0, 2).Draw(t, "lenMode") == 0 {
				n = rapid.IntRange(0, 3*u).Draw(t, "n")
			} else {
				n = rapid.SampledFrom(lens).Draw(t, "nB")
			}
			c.Ops = append(c.Ops, c10Op{K: "read", N: n})
		case 6, 7, 8:
			wh := rapid.IntRange(0, 2).Draw(t, "wh")
			var off int64
			switch rapid.IntRange(0, 3).Draw(t, "offMode") {
			case 0:
				off = int64(rapid.IntRange(-c.Size-5, c.Size+u+5).Draw(t, "off"))
			case 1:
				off = int64(rapid.SampledFrom([]int{0, 1, -1, u, -u, u + 100, -(u + 100), c.Size, -c.Size, c.Size - 1, 1 - c.Size}).Draw(t, "offB"))
			default:
				// inside the file, unaligned
				if c.Size > 0 {
					off = int64(rapid.IntRange(0, c.Size-1).Draw(t, "offIn"))
					if wh == 2 {
						off = -off
					}
				}
			}
			c.Ops = append(c.Ops, c10Op{K: "seek", Off: off, Wh: wh})
		case 9:
			c.Ops = append(c.Ops, c10Op{K: "close"})
		}
	}
	return c
}

func execC10(ci any) (r hx.Result) {
	c := ci.(c10Case)
	r.Class("fs:" + c.FS)
	im := c10Build(c.FS, c.Size, c.Frag, c.Start)
	if im.err != nil {
		// building a plain file through the public API is inside every
		// property's domain; a failure here is reported by C01/C04/C06/C07.
		r.Discard = true
		r.Note("build %s size=%d frag=%v: %v", c.FS, c.Size, c.Frag, im.err)
		return
	}
	var f filesystem.File
	var err error
	if p, v, st := hx.Safe(func() { f, err = im.open() }); p {
		r.Fail("open-panic", "panic opening %s: %v [%s]", c.FS, v, st)
		return
	}
	if err != nil {
		r.Fail("open-error", "cannot open the file the library wrote on %s: %v", c.FS, err)
		return
	}
	data := im.bytes
	pos := int64(0)
	if c.Wr != nil {
		// a private copy of the volume, a new file, one Seek and one Write on the handle that is then examined
		r.Class("handle:wrote-first")
		f.Close()
		d2 := im.d.Clone()
		wdata := mk.Content{Seed: uint32(c.Wr.N)*3 + 5, Len: c.Wr.N, Style: 0}.Bytes()
		var werr error
		if p, v, st := hx.Safe(func() {
			var wfs filesystem.FileSystem
			name := "/NEWW.BIN"
			if c.FS == "ext4-1k" {
				var x *ext4.FileSystem
				x, werr = ext4.Read(d2, im.size, c.Start, 512)
				wfs, name = x, "neww.bin"
			} else {
				wfs, werr = mk.ReadFAT(c.FS, d2, im.size, c.Start, 512)
			}
			if werr != nil {
				return
			}
			if f, werr = wfs.OpenFile(name, os.O_CREATE|os.O_RDWR); werr != nil {
				return
			}
			if c.Wr.Gap > 0 {
				if _, werr = f.Seek(int64(c.Wr.Gap), io.SeekStart); werr != nil {
					return
				}
			}
			_, werr = f.(io.Writer).Write(wdata)
		}); p {
			r.Fail("write-panic", "creating and writing a file on %s panicked: %v [%s]", c.FS, v, st)
			return
		}
		if werr != nil {
			r.Discard = true
			r.Note("write-first prelude refused: %v", werr)
			return
		}
		data = append(make([]byte, c.Wr.Gap), wdata...)
		pos = int64(len(data))
	}
	size := int64(len(data))
	unit := int64(c10Unit(c.FS))
	closed := false
	afterSeekEnd := false
	for i, op := range c.Ops {
		r.Steps++
		switch op.K {
		case "read":
			buf := make([]byte, op.N)
			for j := range buf {
				buf[j] = 0xCC
			}
			var n int
			var err error
			fin := hx.WithTimeout(watchdog(), func() {
				if p, v, st := hx.Safe(func() { n, err = f.Read(buf) }); p {
					r.Fail("read-panic", "op %d: Read(%d) at pos %d (size %d, closed=%v) panicked: %v [%s]", i, op.N, pos, size, closed, v, st)
				}
			})
			if !fin {
				r.Fail("read-hang", "op %d: Read(%d) at pos %d did not return", i, op.N, pos)
			}
			if r.Failed() {
				return
			}
			if closed {
				if err == nil || n != 0 {
					r.Fail("read-after-close", "op %d: Read after Close returned n=%d err=%v (want an error and no data)", i, n, err)
					return
				}
				continue
			}
			if n < 0 || n > len(buf) {
				r.Fail("read-count", "op %d: Read(%d) returned n=%d", i, op.N, n)
				return
			}
			remain := size - pos
			if remain < 0 {
				remain = 0
			}
			if int64(n) > remain {
				r.Fail("read-past-eof", "op %d: Read(%d) at pos %d of %d-byte file returned %d bytes, only %d remain", i, op.N, pos, size, n, remain)
				return
			}
			if err != nil && err != io.EOF {
				r.Fail("read-error", "op %d: Read(%d) at pos %d of %d-byte file failed: %v", i, op.N, pos, size, err)
				return
			}
			if n > 0 && !bytes.Equal(buf[:n], data[pos:pos+int64(n)]) {
				k := 0
				for k < n && buf[k] == data[pos+int64(k)] {
					k++
				}
				r.Fail("read-bytes", "op %d: Read(%d) at pos %d returned wrong bytes (first difference at file offset %d)", i, op.N, pos, pos+int64(k))
				return
			}
			if remain == 0 {
				if op.N > 0 && err != io.EOF {
					r.Fail("eof-missing", "op %d: Read(%d) at/after end (pos %d, size %d) returned n=%d err=%v, want 0, io.EOF", i, op.N, pos, size, n, err)
					return
				}
			} else {
				if op.N > 0 && n == 0 {
					r.Fail("read-zero", "op %d: Read(%d) at pos %d with %d bytes remaining returned n=0 err=%v", i, op.N, pos, remain, err)
					return
				}
				if err == io.EOF && pos+int64(n) != size {
					r.Fail("eof-early", "op %d: Read(%d) at pos %d returned io.EOF after %d bytes but %d remain", i, op.N, pos, n, remain-int64(n))
					return
				}
				if op.N == 0 && err != nil {
					r.Fail("read-empty", "op %d: Read(empty) before the end (pos %d of %d) returned err=%v", i, pos, size, err)
					return
				}
				if n > 0 {
					// non-triviality: unaligned start inside the last block, or crossing a block boundary, or after SeekEnd
					if pos%unit != 0 && pos/unit == (size-1)/unit {
						r.Nontrivial = true
					}
					if pos/unit != (pos+int64(n)-1)/unit {
						r.Nontrivial = true
					}
					if afterSeekEnd {
						r.Nontrivial = true
					}
				}
			}
			pos += int64(n)
			afterSeekEnd = false
		case "seek":
			var np int64
			var err error
			if p, v, st := hx.Safe(func() { np, err = f.Seek(op.Off, op.Wh) }); p {
				if closed {
					r.Note("Seek after Close panics on %s", c.FS)
					return
				}
				r.Fail("seek-panic", "op %d: Seek(%d,%d) panicked: %v [%s]", i, op.Off, op.Wh, v, st)
				return
			}
			if closed {
				continue // the statement constrains reads after Close only
			}
			var want int64
			switch op.Wh {
			case io.SeekStart:
				want = op.Off
			case io.SeekCurrent:
				want = pos + op.Off
			case io.SeekEnd:
				want = size + op.Off
			}
			if want < 0 {
				if err == nil {
					r.Fail("seek-negative", "op %d: Seek(%d,%d) from pos %d (size %d) to negative position succeeded (returned %d)", i, op.Off, op.Wh, pos, size, np)
					return
				}
				// position must be unchanged: verified by the following reads
				continue
			}
			if err != nil {
				r.Fail("seek-error", "op %d: Seek(%d,%d) from pos %d (size %d) failed: %v", i, op.Off, op.Wh, pos, size, err)
				return
			}
			if np != want {
				r.Fail("seek-pos", "op %d: Seek(%d,%d) from pos %d (size %d) returned %d, io.Seeker says %d", i, op.Off, op.Wh, pos, size, np, want)
				return
			}
			pos = want
			afterSeekEnd = op.Wh == io.SeekEnd
		case "close":
			if p, v, st := hx.Safe(func() { _ = f.Close() }); p {
				r.Fail("close-panic", "op %d: Close panicked: %v [%s]", i, v, st)
				return
			}
			closed = true
		}
	}
	return
}

func init() {
	hx.Register(&hx.Spec{ID: "C10", Gen: genC10, Exec: execC10, New: func() any { return new(c10Case) },
		Rule: "case = (filesystem variant, file size, fragmentation, sequence of Read/Seek/Close); non-trivial = some Read returned data and started unaligned inside the last block, or crossed a block/cluster boundary, or followed a SeekEnd; distinct by hash of the case JSON"})
}

func TestC10(t *testing.T) { hx.RunProp(t, "C10") }
