package props

// C18 — Opening and walking a damaged filesystem image cannot crash.
// Fault enumeration, read-set guided: every byte range the reader consumes on a
// valid base image is swept with boundary values at widths 1/2/4/8; plus
// hand-written structural faults (FAT chain loops, directory loops).

import (
	"encoding/binary"
	"fmt"
	"io"
	iofs "io/fs"
	"os"
	"regexp"
	"runtime/debug"
	"runtime/metrics"
	"sort"
	"strconv"
	"strings"
	"sync"
	"sync/atomic"
	"testing"
	"time"

	"github.com/diskfs/go-diskfs/filesystem/ext4"
	"github.com/diskfs/go-diskfs/filesystem/iso9660"
	"github.com/diskfs/go-diskfs/filesystem/squashfs"

	"verifharness/dev"
	"verifharness/hx"
	"verifharness/indep"
	"verifharness/mk"
)

type c18Fault struct {
	Off   int64  `json:"off"`
	Hex   string `json:"hex"`
	Label string `json:"label,omitempty"`
	Size0 bool   `json:"size0,omitempty"` // open the image with size 0 ("unknown", as examples/serve-image does) instead of its real size
}

type c18Case struct {
	Base   string     `json:"base"`
	Shard  int        `json:"shard"`
	NShard int        `json:"nshard"`
	Stride int        `json:"stride"`
	Phase  int        `json:"phase"`
	Only   *c18Fault  `json:"only,omitempty"`
	Also   []c18Fault `json:"also,omitempty"` // further faults applied together with Only (multi-field cases)
	N      int        `json:"n,omitempty"`    // ordinal of the probe inside its base (journal only; lets a collection run resume after a process death)
}

var c18Bases = []string{"fat12", "fat16", "fat32", "ext4", "ext4-csum", "ext4-mke2fs", "ext4-htree", "iso", "iso-rr", "sq-none", "sq-gzip"}

type c18Image struct {
	bytes     []byte
	size      int64
	kind      string
	blk       int64
	err       error
	readSet   []dev.Interval
	baseAlloc uint64
	baseTime  time.Duration
	special   []c18Fault
	cum       []int64     // cumulative lengths of readSet (multi-fault selectors)
	scratch   *dev.Device // one device per base, damaged and restored around every probe (the walk never writes)
}

// damaged returns the base image with the faults applied (in order), and the function that undoes them.
func (im *c18Image) damaged(fs ...c18Fault) (*dev.Device, func()) {
	if im.scratch == nil {
		im.scratch = dev.FromBytes(im.bytes, im.size)
	}
	d := im.scratch
	type undo struct {
		off  int64
		orig []byte
	}
	var undos []undo
	for _, f := range fs {
		b := unhex(f.Hex)
		if f.Off < 0 || f.Off >= im.size {
			continue
		}
		end := f.Off + int64(len(b))
		if end > im.size {
			end = im.size
		}
		undos = append(undos, undo{f.Off, append([]byte(nil), im.bytes[f.Off:end]...)})
		d.Poke(f.Off, b[:end-f.Off])
	}
	return d, func() {
		for i := len(undos) - 1; i >= 0; i-- {
			d.Poke(undos[i].off, undos[i].orig)
		}
	}
}

var (
	c18Mu  sync.Mutex
	c18Img = map[string]*c18Image{}
)

func c18Tree(names string) []mk.Entry {
	return []mk.Entry{
		{Path: "DIR1", Kind: mk.KDir},
		{Path: "DIR1/SUB", Kind: mk.KDir},
		{Path: "DIR1/SUB/DEEP.TXT", Kind: mk.KFile, Data: mk.Content{Seed: 4, Len: 700, Style: 2}},
		{Path: "DIR1/A.BIN", Kind: mk.KFile, Data: mk.Content{Seed: 1, Len: 5000, Style: 0}},
		{Path: "B.TXT", Kind: mk.KFile, Data: mk.Content{Seed: 2, Len: 1, Style: 2}},
		{Path: "EMPTY", Kind: mk.KFile, Data: mk.Content{Seed: 3, Len: 0}},
		{Path: "long file name for lfn.data", Kind: mk.KFile, Data: mk.Content{Seed: 5, Len: 1500, Style: 2}},
	}
}

// c18Walk opens the image and reads everything, with hard limits so that the harness itself terminates.
func c18Walk(kind string, d *dev.Device, size int64) error {
	_, err := c18WalkOpened(kind, d, size)
	return err
}

func c18WalkOpened(kind string, d *dev.Device, size int64) (bool, error) {
	return c18WalkOpenedAs(kind, d, size, size)
}

// c18WalkOpenedAs also reports whether the image was accepted at open (the walk then ran on damaged structures).
// imgSize is the real size of the image (it bounds how much data the walker reads); size is what the reader is told.
func c18WalkOpenedAs(kind string, d *dev.Device, imgSize, size int64) (bool, error) {
	var fsys iofs.ReadDirFS
	var err error
	switch {
	case strings.HasPrefix(kind, "fat"):
		var f iofs.FS
		f, err = mk.ReadFAT(kind, d, size, 0, 512)
		if err == nil {
			fsys = f.(iofs.ReadDirFS)
		}
	case strings.HasPrefix(kind, "ext4"):
		var f *ext4.FileSystem
		f, err = ext4.Read(d, size, 0, 512)
		fsys = f
	case strings.HasPrefix(kind, "iso"):
		var f *iso9660.FileSystem
		f, err = iso9660.Read(d, size, 0, 2048)
		fsys = f
	default:
		var f *squashfs.FileSystem
		f, err = squashfs.Read(d, size, 0, 4096)
		fsys = f
	}
	if err != nil {
		return false, nil // refused at open: fine
	}
	entries := 0
	return true, walkLimited(fsys, ".", 0, func(p string, de iofs.DirEntry, werr error) error {
		if werr != nil {
			return nil // an error on a node is fine; keep walking siblings
		}
		entries++
		if entries > 5000 {
			return fmt.Errorf("stop: more than 5000 entries")
		}
		if xf, ok := fsys.(*ext4.FileSystem); ok {
			_, _ = xf.GetXattr(p) // extended attributes are part of what a walk of an ext4 image reads
		}
		if de.IsDir() || de.Type()&iofs.ModeSymlink != 0 {
			return nil
		}
		f, err := fsys.(iofs.FS).Open(p)
		if err != nil {
			return nil
		}
		defer f.Close()
		// read everything the handle offers, but never more than a damaged size field could justify
		buf := make([]byte, 32768)
		total := int64(0)
		for i := 0; i < 1<<16; i++ {
			n, err := f.Read(buf)
			total += int64(n)
			if err != nil {
				return nil
			}
			if n == 0 {
				return fmt.Errorf("endless-read: Read of %q returns (0, nil) repeatedly", clip(p))
			}
			if total > 8*imgSize+1<<20 {
				return nil // more data than the image could hold: stop reading, not a crash
			}
		}
		return nil
	})
}

func c18Build(base string) *c18Image {
	c18Mu.Lock()
	defer c18Mu.Unlock()
	if im, ok := c18Img[base]; ok {
		return im
	}
	im := &c18Image{kind: base}
	c18Img[base] = im
	p, pv, _ := hx.Safe(func() {
		tree := c18Tree("")
		var d *dev.Device
		switch base {
		case "fat12", "fat16", "fat32":
			im.size = map[string]int64{"fat12": 128 << 10, "fat16": 4400 << 10, "fat32": 1<<20 + 512}[base]
			d = dev.New(im.size)
			fs, err := mk.CreateFAT(base, d, im.size, 0, 512, "C18", true)
			if err != nil {
				im.err = err
				return
			}
			es := append([]mk.Entry(nil), tree...)
			mk.SortEntries(es)
			for _, e := range es {
				if e.Kind == mk.KDir {
					im.err = fs.Mkdir("/" + e.Path)
				} else {
					// interleave with another file so chains are fragmented
					im.err = writeInterleaved(fs, "/"+e.Path, "/FILLER.BIN", e.Data.Bytes(), 512, e.Data.Len > 1024)
				}
				if im.err != nil {
					return
				}
			}
		case "ext4", "ext4-csum":
			im.size = 8 << 20
			d = dev.New(im.size)
			o := mk.E4Opts{Journal: bp(false)}
			if base == "ext4-csum" {
				o.MetaCsum = bp(true)
			}
			fs, err := mk.CreateExt4(d, im.size, 0, o)
			if err != nil {
				im.err = err
				return
			}
			es := append([]mk.Entry(nil), tree...)
			mk.SortEntries(es)
			for _, e := range es {
				if e.Kind == mk.KDir {
					im.err = fs.Mkdir(e.Path)
				} else {
					im.err = writeInterleaved(fs, e.Path, "filler.bin", e.Data.Bytes(), 1024, e.Data.Len > 2048)
				}
				if im.err != nil {
					return
				}
			}
			if im.err = fs.Symlink("B.TXT", "lnk"); im.err != nil {
				return
			}
		case "ext4-mke2fs":
			dir, err := os.MkdirTemp("", "verif_c18")
			if err != nil {
				im.err = err
				return
			}
			defer os.RemoveAll(dir)
			if im.err = os.Mkdir(dir+"/src", 0o755); im.err != nil {
				return
			}
			if im.err = mk.Materialize(dir+"/src", tree); im.err != nil {
				return
			}
			if _, infra := indep.Mke2fs(dir+"/img", 4096, "-t", "ext4", "-b", "1024", "-O", "^has_journal", "-d", dir+"/src"); infra != "" {
				im.err = fmt.Errorf("%s", infra)
				return
			}
			b, err := os.ReadFile(dir + "/img")
			if err != nil {
				im.err = err
				return
			}
			im.size = int64(len(b))
			d = dev.FromBytes(b, im.size)
		case "ext4-htree":
			// made by mke2fs -d, then e2fsck -fyD (hash-indexed directory), a sparse file whose extent tree has a
			// leaf block of its own, an in-inode and a block extended attribute (debugfs ea_set)
			dir, err := os.MkdirTemp("", "verif_c18")
			if err != nil {
				im.err = err
				return
			}
			defer os.RemoveAll(dir)
			if im.err = os.Mkdir(dir+"/src", 0o755); im.err != nil {
				return
			}
			if im.err = mk.Materialize(dir+"/src", tree); im.err != nil {
				return
			}
			if im.err = os.Mkdir(dir+"/src/big", 0o755); im.err != nil {
				return
			}
			for i := 0; i < 130; i++ {
				if im.err = os.WriteFile(fmt.Sprintf("%s/src/big/entry-%04d-%s", dir, i, strings.Repeat("n", 36)), nil, 0o644); im.err != nil {
					return
				}
			}
			sp, err := os.Create(dir + "/src/sparse.bin")
			if err != nil {
				im.err = err
				return
			}
			for k := 0; k < 7; k++ {
				if _, im.err = sp.WriteAt(mk.Content{Seed: uint32(40 + k), Len: 1024, Style: 0}.Bytes(), int64(k)*9*1024+2048); im.err != nil {
					return
				}
			}
			sp.Close()
			for k := 0; k < 7; k++ { // payload, not structure: left out of the fault positions
				tree = append(tree, mk.Entry{Path: fmt.Sprintf("sparse-seg-%d", k), Kind: mk.KFile, Data: mk.Content{Seed: uint32(40 + k), Len: 1024, Style: 0}})
			}
			// fixed UUID and hash seed: the layout of the hash tree (and with it every fault position) is the same in every run
			if _, infra := indep.Mke2fs(dir+"/img", 4096, "-t", "ext4", "-b", "1024", "-I", "256", "-O", "^has_journal", "-U", "11111111-2222-3333-4444-555555555555",
				"-E", "hash_seed=11111111-2222-3333-4444-555555555556", "-d", dir+"/src"); infra != "" {
				im.err = fmt.Errorf("%s", infra)
				return
			}
			if code, out, infra := indep.E2fsckFix(dir + "/img"); infra != "" || code > 1 {
				im.err = fmt.Errorf("e2fsck -fyD: exit %d %s %s", code, infra, firstWords(out, 30))
				return
			}
			script := "ea_set /B.TXT user.small tiny\nea_set /big user.large " + strings.Repeat("v", 600) + "\n"
			if im.err = os.WriteFile(dir+"/script", []byte(script), 0o644); im.err != nil {
				return
			}
			if _, infra := indep.DebugfsScript(dir+"/img", dir+"/script"); infra != "" {
				im.err = fmt.Errorf("%s", infra)
				return
			}
			b, err := os.ReadFile(dir + "/img")
			if err != nil {
				im.err = err
				return
			}
			im.size = int64(len(b))
			d = dev.FromBytes(b, im.size)
		case "iso", "iso-rr":
			im.size = 512 << 10
			d = dev.New(im.size)
			im.err = mk.BuildISO(d, im.size, 0, 2048, tree, mk.IsoOpts{RockRidge: base == "iso-rr"})
		case "sq-none", "sq-gzip":
			im.size = 256 << 10
			d = dev.New(im.size)
			o := mk.SqOpts{Comp: "gzip", Level: 6}
			if base == "sq-none" {
				o = mk.SqOpts{Comp: "none", NoCompInodes: true, NoCompData: true, NoCompFrags: true}
			}
			im.err = mk.BuildSquashfs(d, im.size, 0, 4096, append(tree, mk.Entry{Path: "lnk", Kind: mk.KLink, Target: "B.TXT"}), o)
		}
		if im.err != nil {
			return
		}
		im.bytes = d.Bytes(0, im.size)
		// the read set of a clean walk
		probe := dev.FromBytes(im.bytes, im.size)
		probe.LogReads = true
		before := heapAllocs()
		t0 := time.Now()
		if werr := c18Walk(base, probe, im.size); werr != nil {
			im.err = fmt.Errorf("clean walk of the base image fails: %v", werr)
			return
		}
		im.baseTime = time.Since(t0)
		im.baseAlloc = heapAllocs() - before
		im.readSet = probe.Reads()
		// drop the ranges that hold generated file payload (not structure)
		im.readSet = c18DropPayload(im.readSet, im.bytes, tree)
		if strings.HasPrefix(base, "fat") {
			im.special = c18FATFaults(base, im)
		}
	})
	if p {
		im.err = fmt.Errorf("panic building %s: %v", base, pv)
	}
	return im
}

// c18DropPayload removes from the read set the places where a file's content sits (found by searching for it).
func c18DropPayload(rs []dev.Interval, img []byte, tree []mk.Entry) []dev.Interval {
	var holes []dev.Interval
	for _, e := range tree {
		if e.Kind != mk.KFile || e.Data.Len < 64 {
			continue
		}
		data := e.Data.Bytes()
		for off := 0; off < len(data); {
			chunk := 512
			if off+chunk > len(data) {
				chunk = len(data) - off
			}
			if chunk < 48 {
				break
			}
			if i := indexBytes(img, data[off:off+chunk]); i >= 0 {
				holes = append(holes, dev.Interval{Lo: int64(i), Hi: int64(i + chunk)})
			}
			off += chunk
		}
	}
	sort.Slice(holes, func(i, j int) bool { return holes[i].Lo < holes[j].Lo })
	var out []dev.Interval
	for _, r := range rs {
		lo := r.Lo
		for _, h := range holes {
			if h.Hi <= lo || h.Lo >= r.Hi {
				continue
			}
			if h.Lo > lo {
				out = append(out, dev.Interval{Lo: lo, Hi: h.Lo})
			}
			if h.Hi > lo {
				lo = h.Hi
			}
		}
		if lo < r.Hi {
			out = append(out, dev.Interval{Lo: lo, Hi: r.Hi})
		}
	}
	return out
}

func indexBytes(h, n []byte) int { return strings.Index(string(h), string(n)) }

// c18FATFaults: chain loops, out-of-range and free links, directory loops.
func c18FATFaults(kind string, im *c18Image) []c18Fault {
	d := dev.FromBytes(im.bytes, im.size)
	rep := indep.CheckFAT(d, 0, im.size, kind)
	if len(rep.Violations) > 0 {
		return nil
	}
	fatOff := int64(rep.Reserved) * int64(rep.BytesPerSector)
	entryBytes := func(c uint32, v uint32) (int64, []byte) {
		switch kind {
		case "fat12":
			o := fatOff + int64(c) + int64(c)/2
			cur := uint16(im.bytes[o]) | uint16(im.bytes[o+1])<<8
			if c&1 == 1 {
				cur = cur&0x000F | uint16(v&0xFFF)<<4
			} else {
				cur = cur&0xF000 | uint16(v&0xFFF)
			}
			return o, []byte{byte(cur), byte(cur >> 8)}
		case "fat16":
			b := make([]byte, 2)
			binary.LittleEndian.PutUint16(b, uint16(v))
			return fatOff + int64(c)*2, b
		default:
			b := make([]byte, 4)
			binary.LittleEndian.PutUint32(b, v)
			return fatOff + int64(c)*4, b
		}
	}
	var out []c18Fault
	for _, e := range rep.Entries {
		if len(e.Chain) == 0 {
			continue
		}
		first, last := e.Chain[0], e.Chain[len(e.Chain)-1]
		add := func(c, v uint32, what string) {
			o, b := entryBytes(c, v)
			out = append(out, c18Fault{Off: o, Hex: hexs(b), Label: fmt.Sprintf("%s of %s (cluster %d -> %d)", what, e.Path, c, v)})
		}
		add(last, last, "self-link at chain end")
		add(last, first, "loop back to chain start")
		add(first, first, "self-link at chain start")
		add(last, rep.Clusters+5, "link beyond the data area")
		add(first, 0, "chain start marked free")
		add(last, 1, "link to reserved cluster 1")
		if len(e.Chain) > 2 {
			add(e.Chain[1], first, "2-cycle")
		}
	}
	// both FAT copies must agree for most readers: apply the same fault to the second copy as a separate variant
	n := len(out)
	for i := 0; i < n; i++ {
		f := out[i]
		out = append(out, c18Fault{Off: f.Off + int64(rep.FATSectors)*int64(rep.BytesPerSector), Hex: f.Hex, Label: f.Label + " [second FAT copy only]"})
	}
	// the same chain faults with the volume opened as "size unknown" (size 0): bounds derived from the size
	// argument are then not available to the reader, the ones derived from the boot sector must do
	n = len(out)
	for i := 0; i < n; i++ {
		f := out[i]
		f.Size0 = true
		f.Label += " [opened with size 0]"
		out = append(out, f)
	}
	return out
}

func c18Values(img []byte, off int64, w int, size, blk int64) [][]byte {
	orig := img[off : off+int64(w)]
	rd := func(at int64) (uint64, bool) {
		if at < 0 || at+int64(w) > int64(len(img)) {
			return 0, false
		}
		var v uint64
		for i := w - 1; i >= 0; i-- {
			v = v<<8 | uint64(img[at+int64(i)])
		}
		return v, true
	}
	max := uint64(1)<<(uint(w)*8) - 1
	if w == 8 {
		max = ^uint64(0)
	}
	var o uint64
	for i := w - 1; i >= 0; i-- {
		o = o<<8 | uint64(orig[i])
	}
	cands := []uint64{0, 1, max >> 1, max>>1 + 1, max, max - 1, o + 1, o - 1, uint64(size), uint64(size / 512), uint64(size/blk) + 1, o ^ 0x80, o << 1}
	// on-disk fields come in related pairs (count and capacity, size and limit, start and end): the
	// neighbouring words of the same width, and one more or less than them, are the boundaries of this one
	for _, at := range []int64{off - int64(w), off + int64(w)} {
		if nb, ok := rd(at); ok && w <= 4 {
			cands = append(cands, nb, nb+1, nb-1)
		}
	}
	if w == 2 || w == 4 {
		// offsets into 8 KiB metadata blocks, sector and block counts: values that are small against the field's
		// range but large against what the image holds
		cands = append(cands, 0x100, 0x400, 0x1000, 0x1fff, 0x2000, 0x2001)
	}
	if w == 4 {
		// single high bits: a product with a sector or entry size wraps to a small number or to zero
		if hx.Thorough() {
			for k := uint(8); k < 32; k++ {
				cands = append(cands, 1<<k)
			}
		} else {
			cands = append(cands, 1<<16, 1<<20, 1<<23, 1<<24, 1<<28)
		}
	}
	if hx.Thorough() && (w == 2 || w == 4) && o >= 16 && o <= 1024 {
		// a small count, size or offset: every smaller value (and a few larger ones), because the interesting
		// ones are the boundaries of the structures it describes (an entry's end minus one), not of the field
		for v := uint64(2); v < o+8; v++ {
			cands = append(cands, v)
		}
	}
	seen := map[uint64]bool{o: true}
	var out [][]byte
	for _, v := range cands {
		v &= max
		if seen[v] {
			continue
		}
		seen[v] = true
		out = append(out, le(v, w))
	}
	return out
}

var frameRe = regexp.MustCompile(`go-diskfs/([a-z0-9/]+)\.(\(\*?[A-Za-z0-9]+\)\.)?([A-Za-z0-9_]+)`)

// panicSite returns the innermost library function on the stack.
func panicSite(stack string) string {
	m := frameRe.FindStringSubmatch(stack)
	if m == nil {
		return "unknown"
	}
	if recv := strings.Trim(m[2], "(*)."); recv != "" {
		return m[1] + "." + recv + "." + m[3]
	}
	return m[1] + "." + m[3]
}

func c18Probe(r *hx.Result, im *c18Image, f c18Fault, also ...c18Fault) (opened bool) {
	all := append([]c18Fault{f}, also...)
	if len(also) > 0 {
		f.Label = fmt.Sprintf("%s together with %d more fault(s): %+v", f.Label, len(also), also)
	}
	d, restore := im.damaged(all...)
	defer restore()
	// "out of proportion": more than 32x the image plus 32 MiB of heap at any one moment. The sum of
	// all allocations is an upper bound of that peak and is free to measure, so it decides the common
	// case; only when the sum exceeds the bound is the probe repeated under a heap sampler.
	bound := uint64(32*im.size) + 32<<20
	limit := 1000 * im.baseTime
	if limit < watchdog() {
		limit = watchdog()
	}
	var werr error
	osz := im.size
	if f.Size0 {
		osz = 0
	}
	before := heapAllocs()
	fin := hx.WithTimeout(limit, func() {
		if p, pv, st := hx.Safe(func() { opened, werr = c18WalkOpenedAs(im.kind, d, im.size, osz) }); p {
			r.Fail("panic@"+panicSite(st), "%s image with bytes %s at offset %d (%s): open+walk panicked: %v [%s]", im.kind, f.Hex, f.Off, f.Label, pv, st)
		}
	})
	if !fin && !r.Failed() {
		// a budget hit on a busy machine is not a verdict: the probe is repeated once, alone on a fresh
		// device, with three times the budget; only a second miss counts
		// the first attempt may still be running on the shared device: leave that one to it
		im.scratch = nil
		d3, restore3 := im.damaged(all...)
		defer restore3()
		limit *= 3
		fin = hx.WithTimeout(limit, func() { hx.Safe(func() { _, werr = c18WalkOpenedAs(im.kind, d3, im.size, osz) }) })
		if fin {
			r.Class("slow-first-attempt")
		}
	}
	if !fin {
		im.scratch = nil
		r.Fail("hang:"+im.kind, "%s image with bytes %s at offset %d (%s): open+walk did not finish within %v (clean walk takes %v)", im.kind, f.Hex, f.Off, f.Label, limit, im.baseTime)
		return true
	}
	if r.Failed() {
		return true
	}
	if werr != nil && strings.HasPrefix(werr.Error(), "endless-read") {
		r.Fail("endless-read:"+im.kind, "%s image with bytes %s at offset %d (%s): %v", im.kind, f.Hex, f.Off, f.Label, werr)
		return true
	}
	if os.Getenv("VERIF_C18_DEBUG") != "" {
		fmt.Printf("C18DEBUG %s off=%d hex=%s sum=%d bound=%d werr=%v\n", im.kind, f.Off, f.Hex, heapAllocs()-before, bound, werr)
	}
	if delta := heapAllocs() - before; delta > bound {
		// what the sampler sees of a run of medium-sized allocations depends on when the collector
		// sweeps them; the smallest of three measurements decides, so only an amount of heap the walk
		// needs every time counts
		peak := ^uint64(0)
		for i := 0; i < 3 && peak > bound; i++ {
			d2 := d
			if p := peakHeap(func() {
				hx.WithTimeout(limit, func() { hx.Safe(func() { _, _ = c18WalkOpenedAs(im.kind, d2, im.size, osz) }) })
			}); p < peak {
				peak = p
			}
		}
		if peak > bound {
			r.Fail("alloc:"+im.kind, "%s image with bytes %s at offset %d (%s): open+walk held %d bytes of heap at once (%d allocated in total) for a %d-byte image (bound 32 x image + 32 MiB = %d; a clean walk allocates %d in total)", im.kind, f.Hex, f.Off, f.Label, peak, delta, im.size, bound, im.baseAlloc)
		} else {
			r.Class("alloc-sum-high-peak-in-proportion")
		}
	}
	return opened
}

var peakSample = []metrics.Sample{{Name: "/memory/classes/heap/objects:bytes"}}

// peakHeap runs f and returns by how much the heap (live and not yet swept objects) grew at its largest,
// as seen by a sampler that looks every few tens of microseconds. Large allocations are accounted the
// moment they are made and stay accounted until a GC cycle has swept them, which takes far longer than the sampling period.
func peakHeap(f func()) uint64 {
	debug.FreeOSMemory()
	old := debug.SetGCPercent(20)
	defer debug.SetGCPercent(old)
	metrics.Read(peakSample)
	base := peakSample[0].Value.Uint64()
	var peak atomic.Uint64
	stop, done := make(chan struct{}), make(chan struct{})
	go func() {
		defer close(done)
		s := []metrics.Sample{{Name: "/memory/classes/heap/objects:bytes"}}
		for {
			select {
			case <-stop:
				return
			default:
			}
			metrics.Read(s)
			if v := s[0].Value.Uint64(); v > peak.Load() {
				peak.Store(v)
			}
			time.Sleep(20 * time.Microsecond)
		}
	}()
	f()
	close(stop)
	<-done
	if p := peak.Load(); p > base {
		return p - base
	}
	return 0
}

// c18Minimise restores changed bytes of a failing fault one at a time while the probe keeps failing; it
// returns the reduced fault, the number of bytes it still changes, and the result of its probe.
func c18Minimise(im *c18Image, f c18Fault, first hx.Result) (c18Fault, int, hx.Result) {
	val := unhex(f.Hex)
	cur := append([]byte(nil), val...)
	orig := im.bytes[f.Off : f.Off+int64(len(val))]
	changed := func(b []byte) int {
		n := 0
		for i := range b {
			if b[i] != orig[i] {
				n++
			}
		}
		return n
	}
	best := first
	for i := range cur {
		if cur[i] == orig[i] || changed(cur) == 1 {
			continue
		}
		try := append([]byte(nil), cur...)
		try[i] = orig[i]
		var pr hx.Result
		c18Probe(&pr, im, c18Fault{Off: f.Off, Hex: hexs(try), Size0: f.Size0})
		if pr.Failed() {
			cur, best = try, pr
		}
	}
	// report the single changed byte on its own
	k := changed(cur)
	if k == 1 {
		for i := range cur {
			if cur[i] != orig[i] {
				nf := c18Fault{Off: f.Off + int64(i), Hex: hexs(cur[i : i+1]), Size0: f.Size0}
				var pr hx.Result
				c18Probe(&pr, im, nf)
				if pr.Failed() {
					return nf, 1, pr
				}
			}
		}
	}
	return c18Fault{Off: f.Off, Hex: hexs(cur), Size0: f.Size0}, k, best
}

var (
	c18Collected  = map[string]string{}
	c18CollectedN = map[string]int{}
)

// knownC18 maps violation signatures to recorded findings.
var knownC18 = map[string]string{}

func execC18(ci any) (r hx.Result) {
	c := ci.(c18Case)
	im := c18Build(c.Base)
	r.Class("base:" + c.Base)
	if im.err != nil {
		r.Discard = true
		r.Note("base image: %s", firstWords(im.err.Error(), 10))
		return
	}
	skip, _ := strconv.Atoi(os.Getenv("VERIF_C18_SKIP"))
	probeNo, refused := 0, 0
	defer func() { hx.AddExtra("C18", "refused_at_open:"+c.Base, refused) }()
	run := func(f c18Fault, also ...c18Fault) bool {
		probeNo++
		if probeNo <= skip {
			return true
		}
		one := c
		one.Only = &f
		one.Also = also
		one.N = probeNo
		hx.JournalSub("C18", one)
		var pr hx.Result
		opened := c18Probe(&pr, im, f, also...)
		r.Sub++
		if opened {
			r.SubNT++ // the image was accepted at open, so the walk ran on damaged structures
		} else {
			refused++
		}
		if pr.Failed() {
			if kf, ok := knownC18[pr.Sig]; ok && hx.Active(kf) {
				hx.Excluded("C18", kf)
				return true
			}
			if os.Getenv("VERIF_C18_COLLECT") != "" {
				c18Mu.Lock()
				if _, seen := c18Collected[pr.Sig]; !seen {
					c18Collected[pr.Sig] = fmt.Sprintf("%s off=%d hex=%s %s :: %s", c.Base, f.Off, f.Hex, f.Label, firstWords(pr.Viol, 40))
					if fh, err := os.OpenFile(os.Getenv("VERIF_C18_COLLECT"), os.O_APPEND|os.O_CREATE|os.O_WRONLY, 0o644); err == nil {
						fmt.Fprintf(fh, "SIG %s :: %s\n", pr.Sig, c18Collected[pr.Sig])
						fh.Close()
					}
				}
				c18CollectedN[pr.Sig]++
				c18Mu.Unlock()
				return true
			}
			// The statement speaks of ONE corrupted field. A word of the sweep may straddle two adjacent fields,
			// so the fault is reduced to the fewest changed bytes that still fail: a single byte lies inside one
			// field whatever the format; a fault built from the format (a FAT entry) is one field by construction.
			// What needs several bytes of a word is recorded, not reported: it may be two fields.
			if len(also) == 0 && f.Label == "" {
				mf, k, mr := c18Minimise(im, f, pr)
				if k > 1 {
					r.Class("needs-several-bytes-of-a-word:not-judged")
					r.Note("%s: fails only with %d bytes of the word at offset %d changed (%s -> %s): may span two fields, not judged [%s]", c.Base, k, f.Off, hexs(im.bytes[f.Off:f.Off+int64(len(unhex(f.Hex)))]), f.Hex, mr.Sig)
					hx.AddExtra("C18", "not_judged_multi_byte:"+c.Base, 1)
					return true
				}
				f, pr = mf, mr
				one.Only = &f
			} else if len(also) > 0 {
				r.Class("several-faults:not-judged")
				return true
			}
			r.Viol, r.Sig = pr.Viol, pr.Sig
			r.ReplayCase = one
			return false
		}
		return true
	}
	if c.Only != nil {
		run(*c.Only, c.Also...)
		r.Nontrivial = r.SubNT > 0
		if len(c.Also) > 0 {
			r.Class(fmt.Sprintf("faults:%d", 1+len(c.Also)))
		}
		return
	}
	stride := c.Stride
	if stride < 1 {
		stride = 1
	}
	n := 0
	for _, f := range im.special {
		n++
		if n%c.NShard != c.Shard {
			continue
		}
		if !run(f) {
			return
		}
	}
	blk := int64(512)
	for _, iv := range im.readSet {
		for off := iv.Lo; off < iv.Hi; off++ {
			for _, w := range []int{1, 2, 4, 8} {
				if off%int64(w) != 0 || off+int64(w) > iv.Hi && w > 1 {
					continue
				}
				n++
				if n%c.NShard != c.Shard || (n/c.NShard)%stride != c.Phase%stride {
					continue
				}
				if off+int64(w) > im.size {
					continue
				}
				for _, v := range c18Values(im.bytes, off, w, im.size, blk) {
					if !run(c18Fault{Off: off, Hex: hexs(v)}) {
						return
					}
				}
			}
		}
	}
	r.Nontrivial = r.Sub > 0
	return
}

func init() {
	hx.Register(&hx.Spec{ID: "C18", Gen: genC18Multi, Exec: execC18, New: func() any { return new(c18Case) },
		Rule: "case = base image (fat12, fat16, fat32, ext4 with and without metadata_csum, ext4 made by mke2fs, ext4 made by mke2fs with a hash-indexed directory + sparse file + xattrs, iso9660 plain and Rock Ridge, squashfs uncompressed and gzip), evaluations = corruptions applied to it: for every byte range the reader consumes during a clean open + walk + read-everything (minus file payload), every aligned 1/2/4/8-byte word x {0, 1, 0x7F.., 0x80.., 0xFF.., max-1, original+-1, original^0x80, original<<1, image size in bytes / sectors / blocks, and for 1/2/4-byte words the values of the two neighbouring words and those +-1, for 2/4-byte words 0x100 0x400 0x1000 0x1fff 0x2000 0x2001, for 4-byte words single high bits (quick: 5 of them), thorough: for fields holding 16..1024 every value from 2 to original+7}, plus FAT chain self-links, 2-cycles, out-of-range, free and reserved links in either FAT copy, each opened with the real size and with size 0; enumerated, not sampled (quick: a strided, seeded subset; thorough: all); every member is distinct (a different word or value); non-trivial = the damaged image is still accepted at open, so listing and reading run on damaged structures (probes refused at open are counted per base under refused_at_open)"})
}

// TestC18 enumerates this shard's share of the fault families of every base image.
func TestC18(t *testing.T) {
	shard, _ := strconv.Atoi(os.Getenv("VERIF_SHARD_INDEX"))
	nshard, _ := strconv.Atoi(os.Getenv("VERIF_NSHARDS"))
	if nshard < 1 {
		nshard = 1
	}
	seed, _ := strconv.Atoi(os.Getenv("VERIF_SEED"))
	stride := 1
	if !hx.Thorough() {
		stride = 6
	}
	if s, err := strconv.Atoi(os.Getenv("VERIF_C18_STRIDE")); err == nil && s > 0 {
		stride = s
	}
	i := 0
	hx.RunEnum(t, "C18", func() (any, bool) {
		for i < len(c18Bases) && os.Getenv("VERIF_C18_BASES") != "" && !strings.Contains(","+os.Getenv("VERIF_C18_BASES")+",", ","+c18Bases[i]+",") {
			i++
		}
		if i >= len(c18Bases) {
			return nil, false
		}
		i++
		return c18Case{Base: c18Bases[i-1], Shard: shard, NShard: nshard, Stride: stride, Phase: seed % stride}, true
	})
	if os.Getenv("VERIF_C18_COLLECT") != "" {
		var keys []string
		for k := range c18Collected {
			keys = append(keys, k)
		}
		sort.Strings(keys)
		for _, k := range keys {
			fmt.Printf("COLLECTED %s n=%d :: %s\n", k, c18CollectedN[k], c18Collected[k])
		}
	}
}

var _ = io.EOF
