#!/bin/bash
# import every finished sub-agent change that is not yet under /verif/seeded and run its property's quick check against it
cd /verif
for j in /tmp/mut/C*-out/m[0-9].json; do
  [ -f "$j" ] || continue
  prop=$(basename $(dirname $j) | sed 's/-out//'); n=$(basename $j .json | sed 's/m//')
  id=$prop-m$n
  [ -f seeded/$id/result.json ] && grep -q "\"$prop\"" seeded/$id/result.json && continue
  [ -f /tmp/mut/$prop-out/m$n.diff ] || continue
  python3 tools/seedimport.py $prop $n >/dev/null && python3 tools/seedrun.py $id
done
