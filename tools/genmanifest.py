#!/usr/bin/env python3
"""Generate MANIFEST.json from tools/propconf.py + tools/manifest_text.py (kept in one place so it stays valid)."""
import json, os, sys
ROOT = os.path.dirname(os.path.dirname(os.path.abspath(__file__)))
sys.path.insert(0, os.path.join(ROOT, 'tools'))
from propconf import PROPS
from manifest_text import TEXT, NOT_APPLICABLE

checks = []
for pid in sorted(PROPS):
    t = TEXT[pid]
    checks.append({
        'property_id': pid,
        'quick_cmd': './check %s --tier quick' % pid,
        'thorough_cmd': './check %s --tier thorough' % pid,
        'evidence_file': '/verif/evidence/%s.json' % pid,
        'replay_cmd_template': './check %s --replay {path}' % pid,
        'engine': 'pbt-harness',
        'level_claimed': {'category': PROPS[pid]['level'], 'text': t['level_text'], 'design_ref': t['design_ref']},
        'level_note': t['level_note'],
        'technique': t['technique'],
    })
m = {
    'version': 1,
    'setup_cmd': './check --build',
    'hooks': {
        'guard': 'verif',
        'enable': 'none needed: checks are black-box through the public API with a harness-side instrumented backend.Storage; no file in /repo carries the verif build tag',
        'baseline_off_cmd': 'cd /repo && go test -vet=off -count=1 -timeout 25m ./...',
        'source_commits': [],
        'add_only': True,
    },
    'engines': [{
        'name': 'pbt-harness', 'path': '/verif/harness',
        'serves_properties': sorted(PROPS),
        'kind_free_text': 'Go module (pgregory.net/rapid v1.3.0 generators and state machines, bounded enumerators, native go fuzz targets) driven by /verif/check; oracles: reference models, independent parsers, e2fsprogs',
    }],
    'checks': checks,
    'not_applicable': NOT_APPLICABLE,
    'notes': 'Exit 2 from a check means inconclusive (build failure or budget), never a violation. Known findings: /verif/known_findings.json.',
}
json.dump(m, open(os.path.join(ROOT, 'MANIFEST.json'), 'w'), indent=1)
print('wrote MANIFEST.json with', len(checks), 'checks;', len(NOT_APPLICABLE), 'not applicable')
