#!/usr/bin/env python3
"""Run the repository's pinned offline suite and compare with /root/.vp/BASELINE.json.
Exit 0 iff every test in stable_pass passes. Usage: baseline.py [repo_dir]"""
import json, subprocess, sys, os
repo = sys.argv[1] if len(sys.argv) > 1 else '/repo'
base = json.load(open('/root/.vp/BASELINE.json'))
want = set(base['stable_pass'])
env = dict(os.environ)
env.pop('GOFLAGS', None)
p = subprocess.run(['go', 'test', '-json', '-vet=off', '-count=1', '-timeout', '25m', './...'], cwd=repo, env=env, capture_output=True, text=True)
passed = set()
failed = set()
for line in p.stdout.splitlines():
    try:
        e = json.loads(line)
    except Exception:
        continue
    if e.get('Test') and e.get('Action') in ('pass', 'fail'):
        key = e['Package'] + '::' + e['Test']
        (passed if e['Action'] == 'pass' else failed).add(key)
missing = sorted(want - passed)
print(f'baseline: {len(want & passed)}/{len(want)} stable tests pass; {len(failed)} failing overall')
for m in missing[:40]:
    print('  MISSING', m)
sys.exit(0 if not missing else 1)
