#!/usr/bin/env python3
"""Run registered checks against a seeded breaking change.
usage: seedrun.py <seeded-id> [--props C01,C08] [--tier quick] [--seed N]
Applies /verif/seeded/<id>/patch.diff to /repo, runs ./check for the listed properties (default: the one in meta.json),
always restores /repo afterwards, and records the outcome in /verif/seeded/<id>/result.json."""
import json, os, subprocess, sys, time
def sh(cmd, **kw):
    return subprocess.run(cmd, shell=True, capture_output=True, text=True, **kw)
def main():
    sid = sys.argv[1]
    d = '/verif/seeded/' + sid
    meta = json.load(open(d + '/meta.json'))
    props = [meta['property']]
    tier, seed = 'quick', '1'
    a = sys.argv[2:]
    while a:
        if a[0] == '--props': props = [x for x in a[1].split(',') if x]; a = a[2:]
        elif a[0] == '--tier': tier = a[1]; a = a[2:]
        elif a[0] == '--seed': seed = a[1]; a = a[2:]
        elif a[0] == '--nodemo': a = a[1:]
        else: raise SystemExit('bad arg ' + a[0])
    st = sh('git -C /repo status --porcelain').stdout.strip()
    if st:
        raise SystemExit('/repo is not clean:\n' + st)
    demo = d + '/demo'
    def run_demo():
        """The sub-agent's own demonstration, re-run against /repo in a scratch copy (nothing is left behind)."""
        if not os.path.isdir(demo):
            return None
        tmp = sh('mktemp -d /dev/shm/seeddemo.XXXXXX').stdout.strip()
        sh('cp -r %s/. %s/ && cp /repo/go.sum %s/' % (demo, tmp, tmp))
        has_test = any(f.endswith('_test.go') for f in os.listdir(tmp))
        cmd = 'go test -count=1 ./...' if has_test else 'go run .'
        r = sh('cd %s && GOFLAGS=-mod=mod GOPROXY=off timeout 900 %s' % (tmp, cmd))
        sh('rm -rf ' + tmp)
        tail = (r.stdout + r.stderr).strip().splitlines()[-6:]
        return {'exit': r.returncode, 'tail': tail}
    without = run_demo() if '--nodemo' not in sys.argv else None
    r = sh('git -C /repo apply --whitespace=nowarn %s/patch.diff' % d)
    if r.returncode != 0:
        raise SystemExit('patch does not apply: ' + r.stderr)
    out = {}
    try:
        b = sh('cd /repo && go build ./...')
        if b.returncode != 0:
            out['build'] = 'FAILED: ' + b.stderr[-400:]
        else:
            if without is not None:
                with_ = run_demo()
                out['demo'] = {'without_change': without, 'with_change': with_, 'confirmed': without['exit'] == 0 and with_['exit'] != 0}
                print(sid, 'demo', 'confirmed' if out['demo']['confirmed'] else 'NOT CONFIRMED (without exit=%s, with exit=%s)' % (without['exit'], with_['exit']))
            for p in props:
                t0 = time.time()
                c = sh('cd /verif && ./check %s --tier %s --seed %s' % (p, tier, seed))
                lines = [l for l in c.stdout.splitlines() if l.startswith(('VIOLATION', 'KNOWN-FINDING')) or ' seed=' in l]
                viol = [l for l in lines if l.startswith('VIOLATION')]
                msg = ''
                if viol:
                    rp = viol[0].split('replay=')[1].strip()
                    try: msg = json.load(open(rp)).get('message', '')[:500]
                    except Exception as e: msg = 'unreadable replay: %s' % e
                out[p] = {'exit': c.returncode, 'detected': c.returncode == 1 and bool(viol), 'wall_s': round(time.time() - t0, 1), 'tier': tier, 'seed': seed, 'lines': lines[-4:], 'message': msg}
                print(sid, p, 'exit=%d' % c.returncode, 'detected' if out[p]['detected'] else 'MISSED', '%.0fs' % (time.time() - t0), msg[:200])
    finally:
        sh('git -C /repo checkout -- . && git -C /repo clean -fdq')
    res_path = d + '/result.json'
    old = json.load(open(res_path)) if os.path.exists(res_path) else {}
    old.update(out)
    json.dump(old, open(res_path, 'w'), indent=1)
main()
