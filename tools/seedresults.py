#!/usr/bin/env python3
"""Write /verif/seeded/RESULTS.md from seeded/*/meta.json and result.json."""
import glob, json, os
rows = []
for d in sorted(glob.glob('/verif/seeded/*-m*')):
    sid = os.path.basename(d)
    m = json.load(open(d + '/meta.json'))
    r = json.load(open(d + '/result.json')) if os.path.exists(d + '/result.json') else {}
    demo = r.get('demo', {})
    dem = 'confirmed' if demo.get('confirmed') else ('not confirmed' if demo else 'not run')
    checks = []
    for k, v in sorted(r.items()):
        if not k.startswith('C'):
            continue
        checks.append('%s %s: %s (%ss)' % (k, v.get('tier', 'quick'), 'detected' if v.get('detected') else 'missed', v.get('wall_s')))
    msg = ''
    own = r.get(m['property'], {})
    if own.get('detected'):
        msg = own.get('message', '')[:220].replace('|', ';').replace('\n', ' ')
    note = m.get('status_note', '')
    rows.append('| %s | %s | %s | %s | %s | %s |' % (sid, ', '.join(m.get('files', [])), (m.get('trigger', '')[:260]).replace('|', ';').replace('\n', ' '), dem, '<br>'.join(checks), (note + ' ' + msg).strip()))
out = ['# Seeded breaking changes and what the checks report', '',
       'One row per change written by a sub-agent that saw only the property text (see AGENT_BRIEF_EXAMPLE.txt for the brief).',
       'Columns: files touched; what is needed to see the defect (sub-agent\'s words); whether the sub-agent\'s own demonstration',
       'was reproduced here against /repo (exit 0 without the patch, non-zero with it); the verdicts of the registered checks with',
       'the patch applied; the first line of the violation the property\'s own check reported.', '',
       '| id | files | trigger | demo | checks | reported |', '|---|---|---|---|---|---|'] + rows
open('/verif/seeded/RESULTS.md', 'w').write('\n'.join(out) + '\n')
print('wrote', len(rows), 'rows')
