#!/usr/bin/env python3
"""Development aid for C18: sweep every base image in its own process, survive process deaths
(out of memory, fatal errors) by resuming after the probe named in the journal, and print the
distinct failure signatures.  usage: c18collect.py <props.test> <stride> [base ...]"""
import json, os, subprocess, sys, tempfile, concurrent.futures as cf
BASES = ["fat12", "fat16", "fat32", "ext4", "ext4-csum", "ext4-mke2fs", "iso", "iso-rr", "sq-none", "sq-gzip"]
def sweep(binp, stride, base, work):
    out = os.path.join(work, base + ".sigs")
    jr = os.path.join(work, base + ".journal")
    skip, deaths = 0, []
    while True:
        env = dict(os.environ, VERIF_C18_COLLECT=out, VERIF_C18_STRIDE=str(stride), VERIF_C18_BASES=base,
                   VERIF_C18_SKIP=str(skip), VERIF_NSHARDS="1", VERIF_SHARD_INDEX="0", VERIF_JOURNAL=jr,
                   VERIF_STATS=os.path.join(work, base + ".stats"), VERIF_REPLAY_DIR=work, VERIF_SEED=os.environ.get("VERIF_SEED", "1"))
        if os.path.exists(jr): os.remove(jr)
        p = subprocess.run("ulimit -v 6000000; exec %s -test.run '^TestC18$' -test.timeout 0" % binp, shell=True, env=env,
                           stdout=subprocess.PIPE, stderr=subprocess.STDOUT, text=True, cwd=work)
        if p.returncode == 0:
            break
        try:
            j = json.load(open(jr))
            c = j.get("case", j)
            n = c["n"]
        except Exception as e:
            deaths.append("%s: died without journal: %s" % (base, p.stdout[-400:]))
            break
        head = [l for l in p.stdout.splitlines() if l.startswith(("fatal error", "panic:", "runtime:"))][:2]
        deaths.append("DEATH %s n=%d only=%s :: %s" % (base, n, json.dumps(c["only"]), " | ".join(head)))
        skip = n
        if len(deaths) > 60:
            deaths.append("%s: giving up after 60 deaths" % base); break
    sigs = open(out).read().splitlines() if os.path.exists(out) else []
    return base, sigs, deaths
def main():
    binp, stride = os.path.abspath(sys.argv[1]), int(sys.argv[2])
    bases = sys.argv[3:] or BASES
    work = tempfile.mkdtemp(prefix="c18collect", dir="/dev/shm")
    with cf.ThreadPoolExecutor(len(bases)) as ex:
        for base, sigs, deaths in ex.map(lambda b: sweep(binp, stride, b, work), bases):
            print("== %s: %d signatures, %d deaths" % (base, len(sigs), len(deaths)))
            for l in sigs + deaths: print("  " + l[:600])
    subprocess.run(["rm", "-rf", work])
main()
