#!/usr/bin/env python3
"""Import a sub-agent's seeded change: seedimport.py <prop> <n>  (from /tmp/mut/<prop>-out/m<n>.*) -> /verif/seeded/<prop>-m<n>/"""
import json, os, shutil, sys
prop, n = sys.argv[1], sys.argv[2]
src = '/tmp/mut/%s-out' % prop
dst = '/verif/seeded/%s-m%s' % (prop, n)
os.makedirs(dst, exist_ok=True)
shutil.copy('%s/m%s.diff' % (src, n), dst + '/patch.diff')
meta = json.load(open('%s/m%s.json' % (src, n)))
meta['property'] = prop
meta['origin'] = 'fresh sub-agent given only the property text and a scratch worktree'
json.dump(meta, open(dst + '/meta.json', 'w'), indent=1)
demo = '%s/m%s_demo' % (src, n)
if os.path.isdir(demo):
    if os.path.exists(dst + '/demo'): shutil.rmtree(dst + '/demo')
    shutil.copytree(demo, dst + '/demo', ignore=shutil.ignore_patterns('go.sum', '*.img', '*.bin', '*.test'))
    # the demo's replace directive pointed at the scratch worktree; it must point at /repo to be re-run
    gm = dst + '/demo/go.mod'
    if os.path.exists(gm):
        s = open(gm).read().replace('/tmp/mut/%s' % prop, '/repo')
        open(gm, 'w').write(s)
print('imported', dst)
