TEXT = {
 'C01': dict(
  design_ref='DESIGN.md §4 C01',
  technique='model-based property testing: rapid-generated FAT12/16/32 operation histories (incl. fill/empty/refill and populate/empty cycles, fill-then-remove-one-and-grow-another, reopen from bytes, start offsets) plus a bounded-exhaustive enumeration of every history of up to 4 (quick) / 6 (thorough) operations over an 18-symbol alphabet, executed against the library and an in-memory reference tree; all listings and contents compared after every step',
  level_text='Stateful generated search with a reference model as oracle; shrunk histories are saved as JSON replays. Exploration: samples histories, sizes and names.',
  level_note='Trusts the reference tree model (zero-filled gaps, case-insensitive names, mkdir -p) and the generated legal-name domain.'),
 'C03': dict(
  design_ref='DESIGN.md §4 C03',
  technique='property-based testing on an instrumented device: every component (FAT/ext4 histories driven to refusal, iso9660/squashfs Finalize incl. too-small sizes, GPT/MBR Table.Write, partition streams) runs inside a pattern-filled larger device; every WriteAt is range-checked and guard bytes are compared',
  level_text='Generated search over component x placement x size x history with a write-log invariant as oracle. Exploration.',
  level_note='Trusts the harness device (range guard + background pattern comparison).'),
 'C04': dict(
  design_ref='DESIGN.md §4 C04',
  technique='model-based property testing: rapid-generated ext4 histories (multi-extent growth by interleaved appends, directory growth with interleaved data blocks, short/long symlinks, attributes, remove and reuse, fill to the last byte, fill-remove-grow, reopen) against an in-memory reference tree, compared after every step',
  level_text='Stateful generated search with a reference model; exploration.',
  level_note='Trusts the reference tree model (zero-filled gaps, exact names).'),
 'C05': dict(
  design_ref='DESIGN.md §4 C05',
  technique='property-based testing with the reference implementation as oracle: generated Create parameter sets x histories; e2fsck -f -n after Create and after every step, debugfs rdump at the end compared with the model',
  level_text='Generated search; the verdict on every step comes from e2fsprogs, an independent implementation. Exploration.',
  level_note='Trusts e2fsprogs 1.47.0 as installed in the sandbox.'),
 'C06': dict(
  design_ref='DESIGN.md §4 C06',
  technique='property-based testing: generated workspace trees x {plain, RockRidge, Joliet, both} x start offset finalized through the library, then read back with the library reader (exact names / level-1 mapping, contents, link targets), with an independent PVD/directory-record walker (extents inside the image, no overlap, same contents) and with an independent Rock Ridge (SUSP) parser (exact names, kinds, link targets, contents)',
  level_text='Generated search with a round-trip oracle and an independent on-disk parser. Exploration.',
  level_note='Trusts the harness ISO9660 walker (ECMA-119 layout), its SUSP/Rock Ridge field parser and the level-1 name rule stated in the harness.'),
 'C07': dict(
  design_ref='DESIGN.md §4 C07',
  technique='property-based testing: generated workspace trees finalized under 1-2 generated option variants (compressor, fragments, NoCompress*, block size, cache size, start) and read back by an independent squashfs reader written in the harness and by the library; round trip against the source model through both, metamorphic agreement between variants, superblock fields against the device write log; plus an enumeration that slides every inode layout byte by byte across the 8 KiB metadata-block boundary',
  level_text='Generated search (and one enumerated family) with an independent-reader round trip, the library round trip, metamorphic and superblock oracles. Exploration.',
  level_note='Trusts the harness squashfs reader (squashfs 4.0 layout; zlib from the standard library, third-party xz/lz4/zstd decoders) and the device write log.'),
 'C08': dict(
  design_ref='DESIGN.md §4 C08',
  technique='property-based testing with an independent oracle: the C01 history generator and the C01 bounded-exhaustive enumeration drive the library while a harness-side FAT parser (BPB, both FATs, FSInfo, backup boot sector, directory walk, cluster ownership map) re-checks the raw bytes after every step',
  level_text='Generated histories; after each step the raw image is parsed by a checker that shares no code with the library. Exploration.',
  level_note='Trusts the harness FAT checker (Microsoft FAT specification layout).'),
 'C02': dict(
  design_ref='DESIGN.md §4 C02',
  technique='property-based testing: generated GPT/MBR tables (sparse unordered indices, 3 spellings, UTF-16 names, >2 TiB sparse disks, rewrites) round-tripped through gpt/mbr/partition.Read and Disk.GetPartition (also as a read-modify-write on one Table object), and cross-checked by an independent GPT/MBR parser (CRCs, backup mirror, protective MBR)',
  level_text='Generated search with two oracles: field-by-field round trip and an independent on-disk validity parser that shares no code with the library. Exploration over a very large table space; sampled, not exhaustive.',
  level_note='Trusts the harness GPT/MBR parser (UEFI layout, hash/crc32) and the spec-derived normalisation (End = Start + Size/LSS - 1).'),
 'C09': dict(
  design_ref='DESIGN.md §4 C09',
  technique='fault enumeration over generated (old,new) GPT pairs: the WriteAt/Sync log of Table.Write is replayed into every crash state (epoch prefix x sector-subset family, exhaustive 2^n for n<=12) and partition.Read must return exactly old or exactly new',
  level_text='For each generated pair every crash state of the stated family is enumerated and checked; pairs themselves are sampled by rapid. Fault enumeration: complete inside the family per pair, not over all pairs.',
  level_note='Crash model = per-logical-sector persistence inside one sync epoch, strict ordering across Sync(); the device records Sync() via the same type assertion the library uses for *os.File.'),
 'C11': dict(
  design_ref='DESIGN.md §4 C11',
  technique='property-based testing: generated interleavings of every mutating and reading entry point on images opened through each read-only route (backend whose Writable() fails, file.New(readOnly), diskfs.Open(ReadOnly), OpenFromPath(readOnly)) and on a writable device used for reads only; oracle = device write log / file hash unchanged after every step, error required from calls that must change the image',
  level_text='Generated call sequences with a write-log invariant and an error-rule oracle. Exploration.',
  level_note='Trusts the instrumented device (write log) and, for the real-file routes, SHA-256 of the file.'),
 'C12': dict(
  design_ref='DESIGN.md §4 C12',
  technique='property-based testing: generated (type, size incl. FAT cluster thresholds, whole disk / GPT / MBR partition, stale previous filesystem or garbage, label) cases created through Disk.CreateFilesystem and re-opened from the device bytes; oracle = table type, filesystem type, label and probe-file contents, blank ranges unrecognised',
  level_text='Generated search with a round-trip recognition oracle over configurations. Exploration.',
  level_note='Trusts the harness device; stale content is produced by the library itself.'),
 'C13': dict(
  design_ref='DESIGN.md §4 C13',
  technique='property-based testing: generated GPT/MBR geometries (near start, straddling and beyond 4 GiB on a sparse device, physical != logical sectors) x readers of shorter/equal/longer length delivering odd pieces, (0,nil) and (n,EOF), through a table read back from disk and through the table object of the caller as Disk.Partition keeps it; oracle = device write log range check + byte comparison + error-type rules; thorough streams a >4 GiB partition against a synthetic verifying pattern region',
  level_text='Generated search over geometry x reader behaviour with an explicit containment and content oracle on the instrumented device. Exploration (sampled).',
  level_note='Trusts the harness device (range guard, hashes) and the stated success rule (success iff exactly size bytes supplied).'),
 'C17': dict(
  design_ref='DESIGN.md §4 C17',
  technique='schedule exploration by property-based testing under the Go race detector: generated goroutine mixes (2..32 readers with own handles, concurrent SetCacheSize), GOMAXPROCS 1..16, yield/sleep injection in the backend ReadAt; oracle = bytes equal the sequential expectation, completion before a watchdog, no race report',
  level_text='Many generated schedules per run, each checked for byte equality, termination and data races (go test -race, halt_on_error). Exploration: schedules are sampled, absence of a bad interleaving is not shown.',
  level_note='Trusts the Go race detector and the watchdog bound; a flaky failure is reported with the journaled case but its replay is probabilistic.'),
 'C14': dict(
  design_ref='DESIGN.md §4 C14',
  technique='metamorphic property-based testing: generated reproducible FAT histories x SOURCE_DATE_EPOCH values executed at two placements in-process and again in a child process 2.1 s later under another TZ, SHA-256 of the volume range must agree; generated GPT/MBR tables written twice and re-written after reading must leave identical bytes',
  level_text='Generated histories with a metamorphic oracle (same inputs, different time / process / placement => same bytes). Exploration.',
  level_note='Trusts SHA-256 comparison of the instrumented device; the second pass is one batch per shard.'),
 'C19': dict(
  design_ref='DESIGN.md §4 C19',
  technique='property-based testing: generated ext4 histories rich in Chmod/Chown/Chtimes/Symlink with a per-call frame check, FAT histories with Chtimes and attribute setters verified on raw directory entries after reopen, and workspace trees with modes/owners/mtimes/symlinks (incl. link targets of kilobytes) finalized to squashfs and Rock Ridge ISO, read back through the library and through independent squashfs / Rock Ridge parsers; oracle = model of the set values at the format resolution + nothing else changes + kinds never confused',
  level_text='Generated histories/trees with a model oracle and a frame-condition invariant. Exploration.',
  level_note='Trusts the harness model of each format\'s resolution (FAT 2 s / date-only access time, squashfs 1 s) and the independent FAT entry parser.'),
 'C20': dict(
  design_ref='DESIGN.md §4 C20',
  technique='differential property-based testing against the reference implementation: generated host trees (sparse files, many entries, symlinks, owners, xattrs) populated by mke2fs -d / debugfs under generated feature sets (incl. two-level hash trees packed by e2fsck -fyD), re-hashed and fragmented with debugfs, then read through ext4.Read - sparse files also through a reused dirty buffer and after seeking back on the same handle - and compared with what was put in (debugfs as arbiter); a hang or wrong data is a violation, refusal or a per-node error is not',
  level_text='Generated images from an independent implementation; oracle = source tree / debugfs view, watchdog for termination. Exploration.',
  level_note='Trusts e2fsprogs 1.47.0 as installed in the sandbox.'),
 'C16': dict(
  design_ref='DESIGN.md §4 C16',
  technique='property-based testing: generated trees copied between generated source/destination filesystem pairings and read back through the destination reader; CompareFS run on pairs of materialisations that are equal or differ by one generated mutation (with excluded-name files and directories present on either side), in both argument orders; the reference diff is computed by the harness on the models',
  level_text='Generated search with a model oracle for copy and a single-mutation metamorphic oracle for compare. Exploration.',
  level_note='Trusts the harness tree diff and the separately checked readers of each filesystem type.'),
 'C15': dict(
  design_ref='DESIGN.md §4 C15',
  technique='fault enumeration: every GPT header field x boundary values x CRC recomputed/stale x primary/backup/both, the array-describing fields with both checksums recomputed (and decodable bytes planted behind a shortened array), 2-field size combinations, entry and MBR-slot corruptions, truncations, plus random images; oracle = no panic, watchdog, heap-allocation bound, returned tables only from CRC-valid data (independent parser); thorough adds a native go fuzz campaign',
  level_text='Finite fault families enumerated on each generated valid base image (quick: every 4th member with a seeded phase; thorough: all), run in memory-capped child processes with a per-case journal so a dying child still yields a replay.',
  level_note='Trusts the harness CRC recomputation and independent parser; allocation is measured with runtime/metrics.'),
 'C18': dict(
  design_ref='DESIGN.md §4 C18',
  technique='fault enumeration guided by the read set: on 11 valid base images (fat12/16/32, ext4 plain / metadata_csum / made by mke2fs / made by mke2fs with a hash-indexed directory, a sparse file and xattrs, iso9660 plain / Rock Ridge, squashfs uncompressed / gzip) every aligned 1/2/4/8-byte word that a clean open + walk + read-everything (+ GetXattr on ext4) consumes (minus file payload) is replaced by each of 13 boundary values, the values of the neighbouring words and, for 2/4-byte words, six mid-range values, for 4-byte words single high bits, and - thorough tier - for every small field (16..1024) every smaller value, plus FAT chain self-links, cycles, out-of-range, free and reserved links in either FAT copy, each with the volume opened with its real size and with size 0; oracle = no panic, watchdog, no endless (0, nil) read, heap held at one moment <= 32 x image + 32 MiB',
  level_text='Finite fault family enumerated per base image (quick: every 6th word with a seeded phase; thorough: all), in memory-capped child processes with a per-probe journal so that a dying child still yields a replay.',
  level_note='Single-word faults without checksum repair; the bases are small fixed trees (nested directories, fragmented files, an empty file, a long name, a symlink), not generated ones. Trusts the instrumented device read log to name what the reader consumes.'),
 'C10': dict(
  design_ref='DESIGN.md §4 C10',
  technique='property-based testing: rapid-generated Read/Seek/Close sequences against a bytes.Reader-equivalent position model on files of known content, 14 filesystem variants (incl. a sparse file inside an image made by mke2fs), each also at a non-zero start offset inside a larger device, read buffers pre-filled with a marker byte',
  level_text='Generated search (rapid, 16 seeded shards) over call sequences x boundary-biased file sizes x filesystem variants, compared step by step with an executable bytes.Reader-style model; shrunk failures become JSON replays. Exploration, not proof: it samples the sequence space.',
  level_note='Trusts the harness model of io.Reader/io.Seeker and that the file content reached the image intact (a wrong writer is reported as a byte mismatch as well).'),
}

ALL = ['C%02d' % i for i in range(1, 21)]
NOT_APPLICABLE = []
def _na():
    out = []
    for p in ALL:
        if p not in TEXT:
            out.append({'property_id': p, 'reason': 'check not built yet in this revision of /verif (planned; see DESIGN.md §8)'})
    return out
NOT_APPLICABLE = _na()
