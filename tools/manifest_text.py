TEXT = {
 'C10': dict(
  design_ref='DESIGN.md §4 C10',
  technique='property-based testing: rapid-generated Read/Seek/Close sequences against a bytes.Reader-equivalent position model on files of known content, 13 filesystem variants',
  level_text='Generated search (rapid, 16 seeded shards) over call sequences x boundary-biased file sizes x filesystem variants, compared step by step with an executable bytes.Reader-style model; shrunk failures become JSON replays. Exploration, not proof: it samples the sequence space.',
  level_note='Trusts the harness model of io.Reader/io.Seeker and that the file content reached the image intact (a wrong writer is reported as a byte mismatch as well).'),
}

ALL = ['C%02d' % i for i in range(1, 21)]
NOT_APPLICABLE = []
def _na():
    out = []
    for p in ALL:
        if p not in TEXT:
            out.append({'property_id': p, 'reason': 'check not built yet in this revision of /verif (planned; see DESIGN.md §8)'})
    return out
NOT_APPLICABLE = _na()
