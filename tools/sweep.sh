#!/bin/bash
# run every registered check once (tier $1, seed $2) and print one line each; exit status = number of non-zero exits
tier=${1:-quick}; seed=${2:-1}; bad=0
cd /verif
for p in $(python3 -c "import sys; sys.path.insert(0,'tools'); import propconf; print(' '.join(sorted(propconf.PROPS)))"); do
  out=$(./check $p --tier $tier --seed $seed 2>&1); rc=$?
  echo "$p rc=$rc $(echo "$out" | grep -E "seed=$seed:" | tail -1)"
  if [ $rc -ne 0 ]; then bad=$((bad+1)); echo "$out" | grep -E "VIOLATION|INFRASTRUCTURE|^  \[" | cut -c1-400 | head -6; fi
done
echo "sweep tier=$tier seed=$seed done: $bad non-zero"
exit $bad
