#!/bin/bash
# re-run the property's quick check against the listed seeded changes (after a check was strengthened); evidence is restored afterwards
cd /verif
for id in "$@"; do
  python3 tools/seedrun.py $id --nodemo
done
git -C /verif checkout -- evidence
echo RERUN-DONE
