"""Per-property run configuration for ./check. Budgets: quick <= ~90 s on 16 cores, thorough 10-25 min."""

def run(test, checks, shards=16, timeout=600, **kw):
    d = dict(test=test, checks=checks, shards=shards, timeout=timeout)
    d.update(kw)
    return d

PROPS = {
    'C01': dict(
        level='exploration',
        quick=dict(runs=[run('TestC01', 30, timeout=400, shrinktime='45s')]),
        thorough=dict(runs=[run('TestC01', 1500, timeout=3000, shrinktime='120s')]),
        assumptions=['names are drawn from the non-aliasing legal-name domain (no two names of one directory share an 8.3 basis name unless the numeric-tail rule applies; no ~ in generated names)',
                     'one live handle per directory in the core domain; the two-live-handles class is a recorded known finding (KF-FAT-STALEDIR) and is generated only when its canonical replay passes',
                     'a gap left by a write beyond EOF reads as zeros (os.File semantics, README: File closely matches os.File)'],
    ),
    'C03': dict(
        level='exploration',
        quick=dict(runs=[run('TestC03', 45, timeout=400, shrinktime='45s')]),
        thorough=dict(runs=[run('TestC03', 1500, timeout=3000, shrinktime='120s')]),
        assumptions=['a panic or hang inside a history aborts that history with a note (C01/C04 judge those); C03 judges containment only',
                     'GPT allowed set: bytes 446..511 of LBA 0 (only with ProtectiveMBR), LBA 1, both entry arrays, the last LBA; MBR allowed set: bytes 446..511'],
    ),
    'C04': dict(
        level='exploration',
        quick=dict(runs=[run('TestC04', 28, timeout=400, shrinktime='45s')]),
        thorough=dict(runs=[run('TestC04', 1200, timeout=3000, shrinktime='120s')]),
        assumptions=['Rename, Link and Mknod return ErrNotImplemented and are not part of the histories', 'attribute calls are issued on files and directories, not on symlinks (the API follows links)'],
    ),
    'C05': dict(
        level='exploration',
        quick=dict(runs=[run('TestC05', 16, timeout=400, shrinktime='45s')]),
        thorough=dict(runs=[run('TestC05', 500, timeout=3000, shrinktime='120s')]),
        assumptions=['e2fsprogs 1.47.0 in the sandbox (/usr/sbin/e2fsck, debugfs) is the reference; a tool that cannot be run is an infrastructure note, never a verdict',
                     'a Create parameter set that panics is neither accepted nor cleanly refused; it is recorded as informational (the statement quantifies over accepted sets)'],
    ),
    'C06': dict(
        level='exploration',
        quick=dict(runs=[run('TestC06', 250, timeout=400, shrinktime='30s')]),
        thorough=dict(runs=[run('TestC06', 6000, timeout=3000, shrinktime='120s')]),
        assumptions=['plain ISO names are judged against the level-1 rule implemented in the harness (split at the first dot, upper-case, [^A-Z0-9_] -> _, 8+3 truncation, directories keep the base name); under a name collision only the number of entries is compared',
                     'symlink targets are generated in the form a Rock Ridge SL record can represent (single slashes, no trailing slash)',
                     'the independent walker judges the primary tree only; oddities of the Joliet tree are reported as diagnostics'],
    ),
    'C07': dict(
        level='exploration',
        quick=dict(runs=[run('TestC07', 60, timeout=400, shrinktime='30s')]),
        thorough=dict(runs=[run('TestC07', 1500, timeout=3000, shrinktime='120s')]),
        assumptions=['the writer is judged through the library reader, a metamorphic relation across option sets / block sizes / cache sizes, and an independent superblock parse; a writer/reader pair wrong in the same way under every option would pass',
                     'an absent table pointer written as 0 instead of all ones, and the ineffective NoPad option, are diagnostics (the statement speaks of size fields)'],
    ),
    'C08': dict(
        level='exploration',
        quick=dict(runs=[run('TestC08', 30, timeout=400, shrinktime='45s')]),
        thorough=dict(runs=[run('TestC08', 1500, timeout=3000, shrinktime='120s')]),
        assumptions=['the independent checker treats . and .. as non-owning references; LFN checksum, duplicate short names and FAT entries beyond the data area are diagnostics only (the statement does not promise them)'],
    ),
    'C02': dict(
        level='exploration',
        quick=dict(runs=[run('TestC02', 6000, timeout=240)]),
        thorough=dict(runs=[run('TestC02', 60000, timeout=1500)]),
        assumptions=['GPT names are drawn with at most 36 UTF-16 units and no NUL (the documented limit); MBR byte ranges are only claimed at 512-byte sectors (mbr.Read ignores its sector-size arguments by its own comment)',
                     'an MBR written over a stale GPT is judged through mbr.Read only (partition.Read prefers the GPT that is still on disk; an MBR Write may not erase it, see C03)'],
    ),
    'C09': dict(
        level='fault_enumeration', count_sub_nontrivial=True,
        quick=dict(runs=[run('TestC09', 100, timeout=240)]),
        thorough=dict(runs=[run('TestC09', 1500, timeout=1500)]),
        assumptions=['crash model: a WriteAt is persisted per logical sector in any subset from the stated family, writes separated by Sync() are ordered; no bit rot inside a sector',
                     'all GUIDs are given so that "exactly old / exactly new" is computed from the specification, not from the library'],
    ),
    'C11': dict(
        level='exploration',
        quick=dict(runs=[run('TestC11', 40, timeout=400, shrinktime='30s')]),
        thorough=dict(runs=[run('TestC11', 4000, timeout=3000, shrinktime='120s')]),
        assumptions=['calls that are no-ops by their own documentation (Mkdir of an existing directory, opening an existing file read-write without truncation) may return either way on writable filesystem types; on finalized iso9660/squashfs every listed call must fail',
                     'in-memory state of a filesystem object after a rejected write is not constrained'],
    ),
    'C12': dict(
        level='exploration',
        quick=dict(runs=[run('TestC12', 500, timeout=400, shrinktime='30s')]),
        thorough=dict(runs=[run('TestC12', 2500, timeout=3000, shrinktime='120s')]),
        assumptions=['each type is created and re-opened with a logical sector setting it accepts (fat12/16/32, ext4: 512; iso9660: 2048 at create; squashfs: 4096); a type refused at Create is a discarded case',
                     'labels are compared exactly after trimming padding; an empty label means the format default'],
    ),
    'C13': dict(
        level='exploration',
        quick=dict(runs=[run('TestC13', 2500, timeout=240)]),
        thorough=dict(runs=[run('TestC13', 60000, timeout=1500), run('TestC13Big', 1, shards=1, timeout=1500)]),
        assumptions=['MBR cases use 512-byte sectors only (mbr.Read ignores its sector-size arguments by its own comment)',
                     'on a refused write only containment is checked (no byte outside the partition changes); content equality is demanded for accepted writes'],
    ),
    'C14': dict(
        level='exploration',
        quick=dict(runs=[run('TestC14', 150, timeout=400, shrinktime='30s')]),
        thorough=dict(runs=[run('TestC14', 3000, timeout=3000, shrinktime='120s')]),
        assumptions=['pass B runs in a child process started >= 2.1 s after pass A with TZ=Pacific/Kiritimati (FAT timestamps have 2 s resolution, so a stray time.Now lands in another bucket); at most 400 histories per shard go to pass B',
                     'histories that themselves fail (judged by C01/C08) are discarded here'],
    ),
    'C15': dict(
        level='fault_enumeration', count_sub_nontrivial=True, crash_is_violation=True, mem_kb=6_000_000,
        quick=dict(runs=[run('TestC15', 20, timeout=240)]),
        thorough=dict(runs=[run('TestC15', 150, timeout=1500)]),
        assumptions=['allocation bound: heap allocated while reading <= 4 x device size + 4 MiB (runtime/metrics /gc/heap/allocs:bytes delta); child processes run under RLIMIT_AS so an absurd allocation kills the child and the journaled case becomes the replay',
                     'single-field faults plus the listed 2-field pairs; not all multi-field corruptions'],
    ),
    'C10': dict(
        level='exploration', crash_is_violation=True,
        quick=dict(runs=[run("TestC10", 800, timeout=240)]),
        thorough=dict(runs=[run('TestC10', 40000, timeout=1500)]),
        assumptions=['file content is written through the library itself (FAT, ext4) or through a host workspace (iso9660, squashfs); a wrong writer shows up as a byte mismatch here too',
                     'short reads are allowed as io.Reader allows them; only n>0 progress, byte equality, EOF placement and Seek arithmetic are demanded'],
    ),
    'C17': dict(
        level='exploration', race=True, crash_is_violation=True,
        quick=dict(runs=[run('TestC17', 14, shards=8, timeout=500, shrinktime='30s')]),
        thorough=dict(runs=[run('TestC17', 2500, timeout=3000, shrinktime='60s')]),
        assumptions=['schedules are sampled (GOMAXPROCS, injected yields/sleeps in the backend ReadAt, repetition), not enumerated; the race detector flags only races that occur in an explored schedule',
                     'GetCacheSize is not called concurrently (the statement names resizing, not querying)'],
    ),
    'C19': dict(
        level='exploration',
        quick=dict(runs=[run('TestC19', 120, timeout=400, shrinktime='30s')]),
        thorough=dict(runs=[run('TestC19', 3000, timeout=3000, shrinktime='120s')]),
        assumptions=['a content write (and a FAT rename) may legitimately move timestamps, so time expectations of that node are dropped at that point; mode/owner/flag expectations are kept',
                     'FAT creation and access times are only observable in the raw directory entry, read with the independent parser; access time has date resolution',
                     'the sandbox runs as uid 0, so os.Lchown on workspace files works'],
    ),
    'C20': dict(
        level='exploration', crash_is_violation=True,
        quick=dict(runs=[run('TestC20', 100, timeout=400, shrinktime='45s')]),
        thorough=dict(runs=[run('TestC20', 1200, timeout=3000, shrinktime='120s')]),
        assumptions=['e2fsprogs 1.47.0 (mke2fs -d, debugfs) is the reference; where mke2fs itself stores something else than the source (it drops trailing zero blocks / holes from the file size, stores 32-bit seconds) the expectation is what debugfs reads back',
                     'refusal at open and an error on an affected node are acceptable outcomes; images without metadata_csum or without extents are refused by the library and count as discarded cases'],
    ),
    'C16': dict(
        level='exploration',
        quick=dict(runs=[run('TestC16', 300, timeout=400, shrinktime='45s')]),
        thorough=dict(runs=[run('TestC16', 8000, timeout=3000, shrinktime='120s')]),
        assumptions=['names come from the non-aliasing FAT-legal domain so every destination can represent them; symlinks are only generated for ext4 -> ext4 (the statement speaks of directories and file contents)',
                     'the 64 MiB streaming threshold of CopyFileSystem is not reached (files up to 3 MiB); noted as a limit'],
    ),
}
