"""Per-property run configuration for ./check. Budgets: quick <= ~90 s on 16 cores, thorough 10-25 min."""

def run(test, checks, shards=16, timeout=600, **kw):
    d = dict(test=test, checks=checks, shards=shards, timeout=timeout)
    d.update(kw)
    return d

PROPS = {
    'C10': dict(
        level='exploration', crash_is_violation=True,
        quick=dict(runs=[run("TestC10", 800, timeout=240)]),
        thorough=dict(runs=[run('TestC10', 40000, timeout=1500)]),
        assumptions=['file content is written through the library itself (FAT, ext4) or through a host workspace (iso9660, squashfs); a wrong writer shows up as a byte mismatch here too',
                     'short reads are allowed as io.Reader allows them; only n>0 progress, byte equality, EOF placement and Seek arithmetic are demanded'],
    ),
}
