"""Per-property run configuration for ./check. Budgets: quick <= ~90 s on 16 cores, thorough 10-25 min."""

def run(test, checks, shards=16, timeout=600, **kw):
    d = dict(test=test, checks=checks, shards=shards, timeout=timeout)
    d.update(kw)
    return d

PROPS = {
    'C02': dict(
        level='exploration',
        quick=dict(runs=[run('TestC02', 6000, timeout=240)]),
        thorough=dict(runs=[run('TestC02', 60000, timeout=1500)]),
        assumptions=['GPT names are drawn with at most 36 UTF-16 units and no NUL (the documented limit); MBR byte ranges are only claimed at 512-byte sectors (mbr.Read ignores its sector-size arguments by its own comment)',
                     'an MBR written over a stale GPT is judged through mbr.Read only (partition.Read prefers the GPT that is still on disk; an MBR Write may not erase it, see C03)'],
    ),
    'C09': dict(
        level='fault_enumeration', count_sub_nontrivial=True,
        quick=dict(runs=[run('TestC09', 100, timeout=240)]),
        thorough=dict(runs=[run('TestC09', 1500, timeout=1500)]),
        assumptions=['crash model: a WriteAt is persisted per logical sector in any subset from the stated family, writes separated by Sync() are ordered; no bit rot inside a sector',
                     'all GUIDs are given so that "exactly old / exactly new" is computed from the specification, not from the library'],
    ),
    'C13': dict(
        level='exploration',
        quick=dict(runs=[run('TestC13', 2500, timeout=240)]),
        thorough=dict(runs=[run('TestC13', 60000, timeout=1500), run('TestC13Big', 1, shards=1, timeout=1500)]),
        assumptions=['MBR cases use 512-byte sectors only (mbr.Read ignores its sector-size arguments by its own comment)',
                     'on a refused write only containment is checked (no byte outside the partition changes); content equality is demanded for accepted writes'],
    ),
    'C15': dict(
        level='fault_enumeration', count_sub_nontrivial=True, crash_is_violation=True, mem_kb=6_000_000,
        quick=dict(runs=[run('TestC15', 20, timeout=240)]),
        thorough=dict(runs=[run('TestC15', 150, timeout=1500)]),
        assumptions=['allocation bound: heap allocated while reading <= 4 x device size + 4 MiB (runtime/metrics /gc/heap/allocs:bytes delta); child processes run under RLIMIT_AS so an absurd allocation kills the child and the journaled case becomes the replay',
                     'single-field faults plus the listed 2-field pairs; not all multi-field corruptions'],
    ),
    'C10': dict(
        level='exploration', crash_is_violation=True,
        quick=dict(runs=[run("TestC10", 800, timeout=240)]),
        thorough=dict(runs=[run('TestC10', 40000, timeout=1500)]),
        assumptions=['file content is written through the library itself (FAT, ext4) or through a host workspace (iso9660, squashfs); a wrong writer shows up as a byte mismatch here too',
                     'short reads are allowed as io.Reader allows them; only n>0 progress, byte equality, EOF placement and Seek arithmetic are demanded'],
    ),
}
